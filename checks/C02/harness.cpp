// C02: TimerEvent / TimerPool on the real loop under a virtual monotonic clock (engine H + engine I lanes).
// usage: harness timer <engine> <depth> <config> [part nparts]
//        harness pool  <engine> <depth> 0 [part nparts]          (C02_POOLED=1: timer records recycled by the loop's object pool)
//        harness heap  <engine> <n> [part nparts]                (one-shot timers, one removal before anything fired)
//        harness heapb <engine> <n> [part nparts] [pooled]       (persistent timers, removal at tick k, top level or inside a callback)
//        harness late  <engine> [pooled]                         (one pass after a lateness of 1e2 / 1e3 / 1e5 ms)
#include "hist/hist.h"
#include "probe.h"
#include <tbox/event/loop.h>
#include <tbox/event/timer_event.h>
#include <tbox/event/common_loop.h>
#if __has_include(<tbox/event/timer_event_impl.h>)
#include <tbox/event/timer_event_impl.h>
#define C02_HAVE_IMPL 1
#endif
#include <tbox/eventx/timer_pool.cpp>      // included (not linked) so that TimerPool::Impl's own cabinet can be read for the state key
#include <time.h>
#include <sys/time.h>
#include <sys/epoll.h>
#include <sys/select.h>
#include <sys/syscall.h>
#include <errno.h>

// ---------------------------------------------------------------------------------------------
// seams: virtual clocks (only while code under test runs: the engine's deadline keeps reading the real clock) and a
// simulated back-end sleep (only inside run-for: a positive poll timeout advances the virtual clock).
// The monotonic clock is vnow ms + vsub us; the wall clock (CLOCK_REALTIME, gettimeofday) is the same plus 1.7e12 ms, so a
// computation that mixes the two clocks, or takes time_since_epoch() of the wrong one, is off by decades.
static long long vnow = 1000000;     // virtual milliseconds (what the floor-millisecond model sees)
static int vsub = 0;                 // microseconds inside the current millisecond
static const long long WALL_OFFSET_MS = 1700000000000LL;
static bool g_virt = false;
struct Virt { Virt() { g_virt = true; } ~Virt() { g_virt = false; } };
static void clock_reset() { vnow = 1000000; vsub = 0; }
static void tick_us(int us) { vsub += us; vnow += vsub / 1000; vsub %= 1000; }
extern "C" int clock_gettime(clockid_t id, struct timespec *ts) {
  if (!g_virt) return (int)syscall(SYS_clock_gettime, id, ts);
  long long m = vnow + ((id == CLOCK_REALTIME || id == CLOCK_REALTIME_COARSE) ? WALL_OFFSET_MS : 0);
  ts->tv_sec = m / 1000; ts->tv_nsec = (m % 1000) * 1000000 + (long)vsub * 1000; return 0; }
extern "C" int gettimeofday(struct timeval *tv, void *tz) { if (!g_virt) return (int)syscall(SYS_gettimeofday, tv, tz); long long m = vnow + WALL_OFFSET_MS; if (tv) { tv->tv_sec = m / 1000; tv->tv_usec = (m % 1000) * 1000 + vsub; } return 0; }
static double real_now_s() { struct timespec ts; syscall(SYS_clock_gettime, CLOCK_MONOTONIC, &ts); return ts.tv_sec + ts.tv_nsec * 1e-9; }
static std::function<void(long long)> g_on_wait;     // argument: the timeout the loop asked for in ms, -1 = "block for ever"
extern "C" int epoll_wait(int epfd, struct epoll_event *ev, int maxev, int timeout) {
  if (g_on_wait) g_on_wait(timeout < 0 ? -1 : timeout);
  if (g_virt) timeout = 0;                            // virtual time never passes by itself
  return (int)syscall(SYS_epoll_pwait, epfd, ev, maxev, timeout, (void *)0, (size_t)8);
}
extern "C" int select(int n, fd_set *r, fd_set *w, fd_set *e, struct timeval *tv) {
  struct timeval z = {0, 0};
  if (tv && (tv->tv_sec < 0 || tv->tv_usec < 0)) { errno = EINVAL; return -1; }      // what the kernel answers; not to be masked by the simulation
  // a sub-millisecond timeout still lets real time pass: on the millisecond clock it is rounded up
  if (g_on_wait) g_on_wait(tv ? (long long)tv->tv_sec * 1000 + (tv->tv_usec + 999) / 1000 : -1);
  if (g_virt) tv = &z;
#ifdef SYS_select
  return (int)syscall(SYS_select, n, r, w, e, tv);
#else
  struct timespec zs = {0, 0}; struct timespec rs; if (tv) { rs.tv_sec = tv->tv_sec; rs.tv_nsec = tv->tv_usec * 1000; }
  return (int)syscall(SYS_pselect6, n, r, w, e, g_virt ? &zs : (tv ? &rs : (struct timespec *)0), (void *)0);
#endif
}
using namespace tbox::event;
typedef std::chrono::milliseconds ms;

static void pass(Loop *loop) { loop->runNext([] {}); loop->runLoop(Loop::Mode::kOnce); }

// A regression may make the loop fire for ever inside one pass (a re-arm that never gets past 'now') or never come back: neither may hang the check.
static long g_cb_count = 0;
static void cb_guard(long limit, const std::string &viol) {
  if (++g_cb_count <= limit) return;
  std::string sg = viol.empty() ? std::string("endless-callbacks-in-one-pass") : viol.substr(0, viol.find(' '));
  printf("\n@VIOL sig=%s :: %s  [more than %ld callbacks in one run: the loop does not stop firing; this process gives up]\n@CAP C02: a process gave up after an endless callback storm\n", sg.c_str(), hx::g_cur, limit); fflush(stdout); _exit(0);
}
static void on_alarm(int) { hx::emit_crash("no-progress-for-300s-in-one-run"); _exit(1); }
struct RunGuard { RunGuard() { g_cb_count = 0; signal(SIGALRM, on_alarm); alarm(300); } ~RunGuard() { alarm(0); } };

// ---------------------------------------------------------------------------------------------
// Private members are read ONLY for the state key (never by the oracle) and through SFINAE probes: if a refactoring renames one,
// the harness still builds, says "@INFO missing-member ..." and the key falls back to the op history (no merging at all).
VF_PROBE(sp_exit_timer_)
VF_PROBE(token_)
// shape of a cabinet: cells (used / free-list link), head of the free list
template <class C> static auto cab_shape_i(const C &cab, bool with_id, int) -> decltype((void)cab.cells_.begin()->next_free, (void)cab.cells_.begin()->id, (void)cab.first_free_, (void)cab.last_id_, std::string()) {
  std::string s = "["; char b[48];
  for (auto &c : cab.cells_) { if (c.id != 0) s += "u,"; else { snprintf(b, 48, "f%ld,", c.next_free == std::numeric_limits<size_t>::max() ? -1L : (long)c.next_free); s += b; } }
  snprintf(b, 48, "]h%ld", cab.first_free_ == std::numeric_limits<size_t>::max() ? -1L : (long)cab.first_free_); s += b;
  if (with_id) { snprintf(b, 48, "i%zu", (size_t)cab.last_id_); s += b; }
  return s;
}
template <class C> static std::string cab_shape_i(const C &, bool, long) { vf_note_missing("Cabinet::cells_/first_free_/last_id_"); return "[?]"; }
template <class C> static std::string cab_shape(const C &cab, bool with_id) { return cab_shape_i(cab, with_id, 0); }
// the loop's timer heap in ARRAY order (two layouts of the same multiset are different states) + the timer cabinet's shape
template <class L> static auto heap_key_i(L *cl, int) -> decltype((void)(*cl->timer_min_heap_.begin())->expired, (void)(*cl->timer_min_heap_.begin())->interval, (void)(*cl->timer_min_heap_.begin())->repeat, (void)cl->timer_cabinet_.size(), std::string()) {
  std::string c; char b[96];
  for (auto *x : cl->timer_min_heap_) { snprintf(b, 96, "%lld/%llu/%llu,", (long long)x->expired - vnow, (unsigned long long)x->interval, (unsigned long long)x->repeat); c += b; }
  c += "#" + std::to_string(cl->timer_cabinet_.size()) + cab_shape(cl->timer_cabinet_, false);
  return c;
}
template <class L> static std::string heap_key_i(L *, long) { vf_note_missing("CommonLoop::timer_min_heap_/timer_cabinet_"); return "H?"; }
static std::string heap_key(CommonLoop *cl) { return heap_key_i(cl, 0); }
template <class P> static auto pool_cab_i(P *p, int) -> decltype((void)p->impl_->timers_, std::string()) { return cab_shape(p->impl_->timers_, true); }
template <class P> static std::string pool_cab_i(P *, long) { vf_note_missing("TimerPool::impl_->timers_"); return "?"; }
// experiment control (a write): de-pool the loop's timer records so that ASan sees stale ones; without the member the runs stay pooled
template <class L> static auto depool_i(L *cl, int) -> decltype((void)(cl->timer_object_pool_.keep_number_ = 0), true) { cl->timer_object_pool_.keep_number_ = 0; return true; }
template <class L> static bool depool_i(L *, long) { vf_note_missing("CommonLoop::timer_object_pool_.keep_number_ (timer records stay pooled)"); return false; }
static void depool(CommonLoop *cl) { depool_i(cl, 0); }
static long token_pos(TimerEvent *t) {
#ifdef C02_HAVE_IMPL
  return (long)VF_GET(token_, *static_cast<TimerEventImpl *>(t), tbox::cabinet::Token()).pos();
#else
  (void)t; vf_note_missing("TimerEventImpl::token_"); return -1;
#endif
}

// ---------------------------------------------------------------------------------------------
enum K { ENABLE, DISABLE, DESTROY, ADVANCE, SCRIPT, REINIT, TICK, RUNFOR, TICKUS };
enum A { NONE, SLOW, DIS_SELF, DIS_OTHER, DESTROY_OTHER, REENABLE_SELF, ENABLE_OTHER, RESTART_OTHER, REINIT_SELF, REINIT_EN_SELF, REINIT_OTHER, REINIT_EN_OTHER, EXIT_LOOP };
enum R { R_SAME, R_IV, R_MODE, R_LEGACY };
// script: timer t's callback (t == number of timers: the callback that every pass queues with runNext, run after the timer scan of the
// same iteration) first lets d ms pass (a slow callback), then does a to o (reinit kind r)
struct Op { int k, t; long long a; int o, d, r; };
static const char *kN[] = {"enable", "disable", "destroy", "advance+pass", "script", "reinit", "tick", "exitLoop+runForever", "tick-us"};
static const char *aN[] = {"none", "slow", "disable-self", "disable-other", "destroy-other", "reenable-self", "enable-other", "restart-other", "reinit-self", "reinit+enable-self", "reinit-other", "reinit+enable-other", "exitLoop(2)"};
static const char *rN[] = {"same-params", "other-interval", "other-mode", "interval0+1"};

struct Cfg { int nt; long long iv[4]; bool per[4]; int reinit_mask; bool reinit_kinds; bool runfor; bool pooled; int nadv; long long adv[5];
             bool rich; bool pairs; bool tickus; int lazy_mask; int nrun; long long run[3]; };
static const long long P31 = 1LL << 31, P32 = 1LL << 32, P33 = 1LL << 33, DAY = 86400000LL;
static const Cfg CFGS[] = {
  {3, {2, 3, 2, 0}, {true, false, true, false}, 3, false, false, false, 5, {0, 1, 2, 3, 7}, true, true, false, 0, 0, {0, 0, 0}},
  {4, {1, 5, 3, 2}, {true, false, true, false}, 3, false, false, false, 5, {0, 1, 2, 3, 7}, true, true, false, 0, 0, {0, 0, 0}},
  {4, {2, 2, 2, 2}, {true, true, false, false}, 3, false, false, false, 5, {0, 1, 2, 3, 7}, true, true, false, 0, 0, {0, 0, 0}},
  // 3: re-initialisation configuration: initialize() with the same parameters / another interval / the other mode, top level and inside callbacks;
  //    t1 starts life UNINITIALISED (enable()/disable() before initialize() must leave it silent)
  {2, {2, 3, 0, 0}, {true, false, false, false}, 3, true, false, false, 5, {0, 1, 2, 3, 7}, true, true, false, 2, 0, {0, 0, 0}},
  // 4: sleeping configuration: exitLoop(T) + runLoop(kForever) with the back-end's sleep simulated; timer records pooled
  {3, {2, 3, 3, 0}, {true, false, true, false}, 0, false, true, true, 2, {0, 3, 0, 0, 0}, true, true, true, 0, 3, {1, 4, 7}},
  // 5..10: magnitude configurations (pass lane): a one-shot and a persistent timer with intervals around 2^31, 2^32, 2^33 ms and of 30 / 60 / 75 days,
  //    beside a 2 ms one-shot; the clock is advanced to 2 ms before, and exactly to, the smaller deadline
  {3, {P31 + 1, P31 - 1, 2, 0}, {false, true, false, false}, 0, false, false, false, 4, {0, 2, P31 - 3, P31 - 1, 0}, false, false, false, 0, 0, {0, 0, 0}},
  {3, {P32 + 3, P32 - 1, 2, 0}, {false, true, false, false}, 0, false, false, false, 4, {0, 2, P32 - 3, P32 - 1, 0}, false, false, false, 0, 0, {0, 0, 0}},
  {3, {P33 + 1, P33 - 1, 2, 0}, {false, true, false, false}, 0, false, false, false, 4, {0, 2, P33 - 3, P33 - 1, 0}, false, false, false, 0, 0, {0, 0, 0}},
  {3, {30 * DAY, 30 * DAY + 1, 2, 0}, {false, true, false, false}, 0, false, false, false, 4, {0, 2, 30 * DAY - 2, 30 * DAY, 0}, false, false, false, 0, 0, {0, 0, 0}},
  {3, {60 * DAY, 60 * DAY - 1, 2, 0}, {false, true, false, false}, 0, false, false, false, 4, {0, 2, 60 * DAY - 3, 60 * DAY - 1, 0}, false, false, false, 0, 0, {0, 0, 0}},
  {3, {75 * DAY, 75 * DAY + 1, 2, 0}, {false, true, false, false}, 0, false, false, false, 4, {0, 2, 75 * DAY - 2, 75 * DAY, 0}, false, false, false, 0, 0, {0, 0, 0}},
  // 11: DEFAULT OFF (C02_BIG_SLEEP=1): the sleeping configuration with an interval / exit wait in [2^31, 2^32) ms. On the unchanged tree the epoll
  //    back-end passes getWaitTime()'s int64 to epoll_wait's int: the time-out turns negative and the loop blocks for ever with the timer pending.
  {2, {P31 + 1, 3, 0, 0}, {false, true, false, false}, 0, false, true, true, 2, {0, 3, 0, 0, 0}, false, false, false, 0, 2, {4, P31 + 5, 0}},
};
static const int NCFG = sizeof(CFGS) / sizeof(CFGS[0]);
static const int CFG_BIG_SLEEP = 11;

static bool basic_script(const Op &o, int nt) { return o.k == SCRIPT && o.t < nt && o.d == 0 && (o.a == DIS_SELF || o.a == DIS_OTHER || o.a == DESTROY_OTHER || o.a == REENABLE_SELF || o.a == ENABLE_OTHER || o.a == RESTART_OTHER); }

static int g_part = 0, g_nparts = 1;
static int timer_mode(const std::string &eng, size_t depth, int config) {
  const Cfg &C = CFGS[config]; const int NT = C.nt; const long long *IV0 = C.iv; const bool *PER0 = C.per;
  hx::Explorer<Op> ex; ex.name = "timer-" + eng + "-cfg" + std::to_string(config) + "-part" + std::to_string(g_part); ex.deadline_s = hx::deadline_from_env(600); ex.part = g_part; ex.nparts = g_nparts;
  ex.show = [NT](const Op &o) { char b[128];
    if (o.k == SCRIPT) { int n = o.t == NT ? snprintf(b, 128, "script(runNext-of-every-pass:") : snprintf(b, 128, "script(t%d:", o.t); if (o.d) n += snprintf(b + n, 128 - n, "slow%d+", o.d); n += snprintf(b + n, 128 - n, "%s", aN[o.a]); if (o.a >= REINIT_SELF && o.a <= REINIT_EN_OTHER) n += snprintf(b + n, 128 - n, "[%s]", rN[o.r]); snprintf(b + n, 128 - n, "->t%d)", o.o); }
    else if (o.k == ADVANCE) snprintf(b, 128, "advance(%lld)+pass", o.a); else if (o.k == TICK) snprintf(b, 128, "tick(%lld)", o.a); else if (o.k == TICKUS) snprintf(b, 128, "tick(%lldus)", o.a);
    else if (o.k == RUNFOR) snprintf(b, 128, "exitLoop(%lld)+runLoop(forever%s)", o.a, o.o ? ",every-sleep-cut-to-half" : "");
    else if (o.k == REINIT) snprintf(b, 128, "reinit(t%d,%s)", o.t, rN[o.r]); else snprintf(b, 128, "%s(t%d)", kN[o.k], o.t); return std::string(b); };
  // all callback scripts of one timer; the "basic" ones (no slow callback, no reinit) may also be combined in pairs
  auto scripts_of = [&](int t, bool basic_only, std::vector<Op> &m) {
    std::vector<int> kinds; if (C.reinit_kinds) { kinds = {R_SAME, R_IV, R_MODE}; } else kinds = {R_SAME};
    m.push_back({SCRIPT, t, DIS_SELF, t, 0, 0}); m.push_back({SCRIPT, t, REENABLE_SELF, t, 0, 0});
    for (int o = 0; o < NT; o++) if (o != t) for (int a : {DIS_OTHER, DESTROY_OTHER, ENABLE_OTHER, RESTART_OTHER}) m.push_back({SCRIPT, t, a, o, 0, 0});
    if (basic_only) return;
    m.push_back({SCRIPT, t, SLOW, t, 2, 0}); m.push_back({SCRIPT, t, REENABLE_SELF, t, 2, 0});
    for (int r : kinds) { m.push_back({SCRIPT, t, REINIT_SELF, t, 0, r}); m.push_back({SCRIPT, t, REINIT_EN_SELF, t, 0, r}); if (C.reinit_kinds) m.push_back({SCRIPT, t, REINIT_EN_SELF, t, 2, r}); }
    for (int o = 0; o < NT; o++) if (o != t) {
      for (int a : {DIS_OTHER, DESTROY_OTHER, ENABLE_OTHER, RESTART_OTHER}) m.push_back({SCRIPT, t, a, o, 2, 0});     // the victim may have become overdue inside the pass
      for (int r : kinds) { m.push_back({SCRIPT, t, REINIT_OTHER, o, 0, r}); m.push_back({SCRIPT, t, REINIT_EN_OTHER, o, 0, r}); if (C.reinit_kinds) m.push_back({SCRIPT, t, REINIT_EN_OTHER, o, 2, r}); } }
    if (C.runfor) m.push_back({SCRIPT, t, EXIT_LOOP, t, 0, 0});
  };
  ex.menu = [&](const std::vector<Op> &h) {
    std::vector<Op> m;
    for (int t = 0; t < NT; t++) { m.push_back({ENABLE, t, 0, 0, 0, 0}); m.push_back({DISABLE, t, 0, 0, 0, 0}); m.push_back({DESTROY, t, 0, 0, 0, 0}); }
    for (int i = 0; i < C.nadv; i++) m.push_back({ADVANCE, 0, C.adv[i], 0, 0, 0});
    m.push_back({TICK, 0, 3, 0, 0, 0});                 // the clock moves on but the loop does not run: the next op meets overdue timers
    if (C.tickus) m.push_back({TICKUS, 0, 400, 0, 0, 0});   // sub-millisecond clock positions (x.4, x.8, (x+1).2 ...)
    if (C.runfor) { for (int i = 0; i < C.nrun; i++) m.push_back({RUNFOR, 0, C.run[i], 0, 0, 0}); if (C.nrun > 0 && C.run[C.nrun - 1] < 1000) m.push_back({RUNFOR, 0, C.run[C.nrun - 1], 1, 0, 0}); }
    for (int t = 0; t < NT; t++) if (C.reinit_mask & (1 << t)) { if (C.reinit_kinds) { for (int r : {R_SAME, R_IV, R_MODE}) m.push_back({REINIT, t, 0, 0, 0, r}); } else m.push_back({REINIT, t, 0, 0, 0, R_LEGACY}); }
    if (h.empty()) { for (int t = 0; t < NT; t++) scripts_of(t, !C.rich, m);
      if (C.rich) for (int o = 0; o < NT; o++) for (int a : {DIS_OTHER, DESTROY_OTHER, ENABLE_OTHER, RESTART_OTHER}) m.push_back({SCRIPT, NT, a, o, 0, 0}); }
    else if (C.pairs && h.size() == 1 && basic_script(h[0], NT)) for (int t = h[0].t + 1; t < NT; t++) scripts_of(t, true, m);     // pairs: on two different timers, order irrelevant
    return m; };
  ex.run = [&](const std::vector<Op> &h, std::string &viol) {
    Virt virt; RunGuard guard;
    clock_reset(); Loop *loop = Loop::New(eng); auto cl = static_cast<CommonLoop *>(loop);
    if (!C.pooled) depool(cl);
    TimerEvent *tm[4]; bool alive[4], inited[4]; int act[5] = {0, 0, 0, 0, 0}, oth[5] = {0, 0, 0, 0, 0}, slow[5] = {0, 0, 0, 0, 0}, rk[5] = {0, 0, 0, 0, 0}; long long IV[4]; bool PER[4]; long fires[4] = {0, 0, 0, 0};
    struct M { bool en = false; long long dl = 0; }; M md[4]; long long last_dl = -1;
    long long now0 = vnow;                 // the clock when the current loop pass woke up
    long long exit_dl = -1; bool exit_used = false, exit_ambig = false, in_runfor = false;
    for (int t = 0; t < NT; t++) { IV[t] = IV0[t]; PER[t] = PER0[t]; tm[t] = loop->newTimerEvent("t"); alive[t] = true; inited[t] = !(C.lazy_mask & (1 << t));
      if (inited[t]) tm[t]->initialize(ms(IV[t]), PER[t] ? Event::Mode::kPersist : Event::Mode::kOneshot); }
    auto m_enable = [&](int t) { if (inited[t] && !md[t].en) { md[t].en = true; md[t].dl = vnow + IV[t]; } };      // a (re-)enable starts a fresh full interval from the clock's value NOW; before initialize() it does nothing
    auto m_disable = [&](int t) { md[t].en = false; };
    auto do_reinit = [&](int t, int r) {   // initialize() leaves the timer disabled, whatever the parameters
      switch (r) { case R_SAME: break; case R_IV: IV[t] = (IV[t] == IV0[t]) ? IV0[t] + 1 : IV0[t]; break; case R_MODE: PER[t] = !PER[t]; break; default: IV[t] = IV0[t] + 1; }
      tm[t]->initialize(ms(IV[t]), PER[t] ? Event::Mode::kPersist : Event::Mode::kOneshot); inited[t] = true; m_disable(t); };
    auto undue = [&] { for (int t = 0; t < NT; t++) if (viol.empty() && alive[t] && md[t].en && md[t].dl <= now0) viol = "due-timer-did-not-fire";   // no period skipped, however late the loop woke
      if (exit_dl >= 0 && exit_dl <= now0 && !in_runfor) exit_dl = -1; };
    // number of callbacks a wake-up at vnow+delta owes (the BFS skips ops that would owe more than a few dozen: a 3 ms timer and a 30-day advance)
    auto owed = [&](long long delta) { long long n = 0; for (int t = 0; t < NT; t++) if (alive[t] && md[t].en && md[t].dl <= vnow + delta) n += PER[t] ? (vnow + delta - md[t].dl) / IV[t] + 1 : 1; return n; };
    auto action = [&](int t, int a, int o, int r) {      // what a callback does; t = acting timer (NT: the runNext callback)
      switch (a) {
        case DIS_SELF: tm[t]->disable(); m_disable(t); break;
        case DIS_OTHER: if (alive[o]) { tm[o]->disable(); m_disable(o); } break;
        case DESTROY_OTHER: if (alive[o]) { m_disable(o); alive[o] = false; delete tm[o]; tm[o] = nullptr; } break;
        case REENABLE_SELF: tm[t]->disable(); m_disable(t); tm[t]->enable(); m_enable(t); break;
        case ENABLE_OTHER: if (alive[o]) { tm[o]->enable(); m_enable(o); } break;
        case RESTART_OTHER: if (alive[o]) { tm[o]->disable(); m_disable(o); tm[o]->enable(); m_enable(o); } break;
        case REINIT_SELF: do_reinit(t, r); break;
        case REINIT_EN_SELF: do_reinit(t, r); tm[t]->enable(); m_enable(t); break;
        case REINIT_OTHER: if (alive[o]) do_reinit(o, r); break;
        case REINIT_EN_OTHER: if (alive[o]) { do_reinit(o, r); tm[o]->enable(); m_enable(o); } break;
        case EXIT_LOOP: if (!exit_used) { exit_used = true; if (in_runfor && exit_dl >= 0 && exit_dl <= now0) exit_ambig = true;   // the old exit timer is due in this very pass: it may or may not have fired already
            loop->exitLoop(ms(2)); exit_dl = vnow + 2; } break;
      } };
    for (int t = 0; t < NT; t++) tm[t]->setCallback([&, t] {
      cb_guard(100000, viol);
      if (!viol.empty()) return;
      if (!alive[t]) { viol = "callback-on-destroyed-timer"; return; }
      if (!md[t].en) { viol = "callback-on-disabled-timer"; return; }
      if (vnow < md[t].dl) { viol = "fired-early"; return; }
      for (int u = 0; u < NT; u++) if (alive[u] && md[u].en && md[u].dl < md[t].dl) { viol = "not-in-deadline-order"; return; }
      if (md[t].dl < last_dl) { viol = "deadline-order-regress"; return; } last_dl = md[t].dl; fires[t]++;
      if (PER[t]) md[t].dl += IV[t]; else { md[t].en = false; if (tm[t]->isEnabled()) { viol = "oneshot-still-enabled-in-its-callback"; return; } }
      vnow += slow[t];                      // a slow callback: the clock moves while the pass is still running
      action(t, act[t], oth[t], rk[t]); });
    // one loop pass; its runNext callback (run after the timer scan of the same iteration, the loop still running) may carry an action
    auto do_pass = [&] { loop->runNext([&] { if (viol.empty() && act[NT] != NONE) action(NT, act[NT], oth[NT], 0); }); loop->runLoop(Loop::Mode::kOnce); };
    for (auto &o : h) { if (!viol.empty()) break;
      switch (o.k) {
        case ENABLE: if (alive[o.t]) { tm[o.t]->enable(); m_enable(o.t); } break;
        case DISABLE: if (alive[o.t]) { tm[o.t]->disable(); m_disable(o.t); } break;
        case DESTROY: if (alive[o.t]) { m_disable(o.t); alive[o.t] = false; delete tm[o.t]; tm[o.t] = nullptr; } break;
        case REINIT: if (alive[o.t]) do_reinit(o.t, o.r); break;
        case TICK: vnow += o.a; break;
        case TICKUS: tick_us((int)o.a); break;
        case ADVANCE: if (owed(o.a) > 64) break; vnow += o.a; now0 = vnow; last_dl = -1; do_pass(); undue(); break;
        case RUNFOR: {   // exitLoop(T) then runLoop(kForever): the loop decides itself how long to sleep
          if (owed(o.a) > 64) break;
          const bool half = o.o != 0;      // every sleep is cut short (a spurious wake-up): the loop must work out the remaining time again
          loop->exitLoop(ms(o.a)); exit_dl = vnow + o.a; exit_ambig = false; in_runfor = true; int wakeups = 0, zero_run = 0; bool first = true;
          g_on_wait = [&](long long to) {
            if (!first) undue(); first = false;
            if (++wakeups > 2500) {      // (the select back-end sleeps the sub-second part of a wait 1 ms at a time: up to 999 wake-ups are legitimate)
              if (viol.empty()) viol = "loop-did-not-return-after-exit-wait"; loop->exitLoop(ms(0)); return; }
            if (to < 0) { if (viol.empty()) viol = "loop-sleeps-for-ever-with-a-timer-pending"; loop->exitLoop(ms(0)); }     // the exit timer (at least) is pending during run-for
            else if (to > 0) {
              // the loop may sleep less than the time to the earliest deadline, never more: asking for more is choosing to be late
              long long first_dl = exit_dl; for (int t = 0; t < NT; t++) if (alive[t] && md[t].en && (first_dl < 0 || md[t].dl < first_dl)) first_dl = md[t].dl;
              if (viol.empty() && first_dl >= 0 && to > std::max(0LL, first_dl - vnow)) viol = "loop-asks-to-sleep-past-the-earliest-deadline";
              vnow += half ? (to + 1) / 2 : to; zero_run = 0; }
            else if (++zero_run >= 8) { vnow += 1; zero_run = 0; }      // polling without sleeping: real time passes anyway
            now0 = vnow; last_dl = -1; };
          loop->runLoop(Loop::Mode::kForever); g_on_wait = nullptr; in_runfor = false; undue();
          if (viol.empty() && !exit_ambig && now0 < exit_dl) viol = "loop-returned-before-exit-wait-elapsed";
          exit_dl = -1;
        } break;
        case SCRIPT: act[o.t] = (int)o.a; oth[o.t] = o.o; slow[o.t] = o.d; rk[o.t] = o.r; break; }
      for (int t = 0; t < NT && viol.empty(); t++) if (alive[t] && tm[t]->isEnabled() != md[t].en) viol = "isEnabled-mismatch";
    }
    std::string c; for (int t = 0; t < NT; t++) { char b[128]; snprintf(b, 128, "%d%d%d%d:%lld:%lld:%d.%d.%d.%d@%ld|", (int)alive[t], (int)inited[t], (int)md[t].en, (int)PER[t], md[t].en ? md[t].dl - vnow : 0, IV[t], act[t], oth[t], slow[t], rk[t], alive[t] && md[t].en ? token_pos(tm[t]) : -1L); c += b; }
    { char b[96]; snprintf(b, 96, "x%lld.%d.%d|n%d.%d|u%d|", exit_dl >= 0 ? exit_dl - vnow : -1, (int)exit_used, (int)(VF_GET(sp_exit_timer_, *cl, (TimerEvent *)nullptr) != nullptr), act[NT], oth[NT], vsub); c += b; }
    c += heap_key(cl);
    if (vf_any_missing()) { c += "!"; for (auto &o : h) c += ex.show(o); }      // a probed member is gone: do not merge states the key can no longer tell apart
    // teardown is one more check: every timer is destroyed, one more pass 3 ms later, nothing may fire
    for (int t = 0; t < NT; t++) if (alive[t]) { alive[t] = false; md[t].en = false; delete tm[t]; tm[t] = nullptr; }
    vnow += 3; act[NT] = NONE; pass(loop); delete loop; return c; };
  ex.explore(depth); return 0;
}

// ---------------------------------------------------------------------------------------------
enum PK { P_EVERY, P_AFTER, P_CANCEL, P_ADVANCE, P_CLEANUP, P_AT, P_TICK, P_TICKUS, P_DESTROY_POOL };
enum PA { PA_NONE, PA_CANCEL_SELF, PA_CANCEL_OLDER, PA_CLEANUP_THEN_AFTER, PA_ADD_AFTER, PA_SLOW_ADD_AFTER, PA_ADD_EVERY, PA_CANCEL_NEWER };
static const char *paN[] = {"none", "cancel-self", "cancel-older", "cleanup-then-doAfter", "add-doAfter", "slow2-then-add-doAfter", "add-doEvery", "cancel-newer"};
struct POp { int k, a, b; };
static int pool_mode(const std::string &eng, size_t depth) {
  using tbox::eventx::TimerPool;
  const bool pooled = hx::env_int("C02_POOLED", 0) != 0;
  hx::Explorer<POp> ex; ex.name = "pool-" + eng + (__cplusplus >= 201402L ? "-cxx14" : "-cxx11") + (pooled ? "-pooled" : "") + "-part" + std::to_string(g_part); ex.deadline_s = hx::deadline_from_env(600); ex.part = g_part; ex.nparts = g_nparts;
  ex.show = [](const POp &o) { char b[64]; switch (o.k) { case P_EVERY: snprintf(b, 64, "doEvery(%d,%s)", o.a, paN[o.b]); break; case P_AFTER: snprintf(b, 64, "doAfter(%d,%s)", o.a, paN[o.b]); break; case P_AT: snprintf(b, 64, "doAt(now+%d,%s)", o.a, paN[o.b]); break; case P_CANCEL: snprintf(b, 64, "cancel(#%d)", o.a); break; case P_ADVANCE: snprintf(b, 64, "advance(%d)+pass", o.a); break; case P_TICK: snprintf(b, 64, "tick(%d)", o.a); break; case P_TICKUS: snprintf(b, 64, "tick(%dus)", o.a); break; case P_DESTROY_POOL: snprintf(b, 64, "delete-pool"); break; default: snprintf(b, 64, "cleanup"); } return std::string(b); };
  ex.menu = [&](const std::vector<POp> &h) {
    std::vector<POp> m; int issued = 0; bool gone = false; for (auto &o : h) { if (o.k == P_EVERY || o.k == P_AFTER || o.k == P_AT) issued++; if (o.k == P_DESTROY_POOL) gone = true; }
    if (!gone) {
      if (issued < 3) for (int iv : {1, 2}) for (int a = 0; a <= PA_SLOW_ADD_AFTER; a++) { m.push_back({P_EVERY, iv, a}); m.push_back({P_AFTER, iv, a}); }
      if (issued < 3) for (int a : {PA_ADD_EVERY, PA_CANCEL_NEWER}) { m.push_back({P_EVERY, 1, a}); m.push_back({P_AFTER, 1, a}); }      // a persistent timer born in a callback; cancelling a timer that has not fired yet
      if (issued < 3) { m.push_back({P_AT, 2, PA_NONE}); m.push_back({P_AT, 1, PA_CANCEL_OLDER}); }      // absolute wall-clock time point (wall clock = monotonic clock + 1.7e12 ms)
      for (int i = 0; i < issued; i++) m.push_back({P_CANCEL, i, 0}); }
    for (int d : {0, 1, 2, 5}) m.push_back({P_ADVANCE, d, 0});
    m.push_back({P_TICK, 2, 0});
    if (!gone) { m.push_back({P_CLEANUP, 0, 0}); m.push_back({P_DESTROY_POOL, 0, 0}); }      // the pool dies with timers pending: none of them may ever fire
    return m; };
  ex.run = [&](const std::vector<POp> &h, std::string &viol) {
    Virt virt; RunGuard guard;
    clock_reset(); Loop *loop = Loop::New(eng); auto cl = static_cast<CommonLoop *>(loop); if (!pooled) depool(cl);
    TimerPool *pool = new TimerPool(loop);
    struct T { TimerPool::TimerToken tok; bool persist; int iv; bool live; long long dl; long fires; int act; };
    std::vector<T> ts; long long last_dl = -1, now0 = vnow; int cleanups = 0; std::string pool_shape;
    // kind: 0 doEvery, 1 doAfter, 2 doAt(system_clock::now()+iv)
    std::function<int(int, int, int)> add = [&](int kind, int iv, int act) -> int {
      bool persist = kind == 0;
      int idx = (int)ts.size(); ts.push_back(T{TimerPool::TimerToken(), persist, iv, true, vnow + iv, 0, act});
      auto cb = [&, idx] {
        cb_guard(100000, viol);
        if (!viol.empty()) return; T &x = ts[idx];
        if (!x.live) { viol = pool ? "pool-callback-after-cancel-or-cleanup" : "pool-callback-after-the-pool-was-destroyed"; return; }
        if (vnow < x.dl) { viol = "pool-fired-early"; return; }
        for (auto &u : ts) if (u.live && u.dl < x.dl) { viol = "pool-not-in-deadline-order"; return; }
        if (x.dl < last_dl) { viol = "pool-deadline-order-regress"; return; } last_dl = x.dl; x.fires++;
        if (x.persist) x.dl += x.iv; else x.live = false;
        switch (ts[idx].act) {
          case PA_CANCEL_SELF: { bool r = pool->cancel(ts[idx].tok); if (ts[idx].persist) { if (!r) viol = "pool-cancel-self-false"; ts[idx].live = false; } } break;
          case PA_CANCEL_OLDER: if (idx > 0) { bool was = ts[idx - 1].live; bool r = pool->cancel(ts[idx - 1].tok); if (r != was) viol = "pool-cancel-answer-disagrees-with-liveness"; ts[idx - 1].live = false; } break;
          case PA_CANCEL_NEWER: if (idx + 1 < (int)ts.size()) { bool was = ts[idx + 1].live; bool r = pool->cancel(ts[idx + 1].tok); if (r != was) viol = "pool-cancel-answer-disagrees-with-liveness"; ts[idx + 1].live = false; } break;
          case PA_CLEANUP_THEN_AFTER: pool->cleanup(); cleanups++; for (auto &u : ts) u.live = false; add(1, 1, PA_NONE); break;
          case PA_ADD_AFTER: if (ts.size() < 6) add(1, 1, PA_NONE); break;
          case PA_ADD_EVERY: if (ts.size() < 6) add(0, 1, PA_NONE); break;
          case PA_SLOW_ADD_AFTER: vnow += 2; if (ts.size() < 6) add(1, 1, PA_NONE); break;      // the clock moves inside the callback: the new timer's interval starts at the new time
        } };
      TimerPool::TimerToken tok = kind == 0 ? pool->doEvery(ms(iv), cb) : kind == 1 ? pool->doAfter(ms(iv), cb) : pool->doAt(std::chrono::system_clock::now() + ms(iv), cb);
      ts[idx].tok = tok; if (tok.isNull()) viol = "pool-null-token"; return idx; };
    std::vector<int> top;
    for (auto &o : h) { if (!viol.empty()) break;
      switch (o.k) {
        case P_AT: top.push_back(add(2, o.a, o.b)); break;
        case P_EVERY: top.push_back(add(0, o.a, o.b)); break;
        case P_AFTER: top.push_back(add(1, o.a, o.b)); break;
        case P_CANCEL: { T &x = ts[top[o.a]]; bool r = pool->cancel(x.tok); if (r != x.live) viol = "pool-cancel-answer-disagrees-with-liveness"; x.live = false; } break;
        case P_CLEANUP: pool->cleanup(); cleanups++; for (auto &u : ts) u.live = false; break;
        case P_DESTROY_POOL: pool_shape = pool_cab_i(pool, 0); delete pool; pool = nullptr; for (auto &u : ts) u.live = false; break;
        case P_TICK: vnow += o.a; break;
        case P_TICKUS: tick_us(o.a); break;
        case P_ADVANCE: vnow += o.a; now0 = vnow; last_dl = -1; pass(loop);
          for (auto &u : ts) if (viol.empty() && u.live && u.dl <= now0) viol = "pool-due-timer-did-not-fire";
          break; }
    }
    std::string c; for (auto &u : ts) { char b[64]; snprintf(b, 64, "%d%d:%lld:%d:%d|", (int)u.live, (int)u.persist, u.live ? u.dl - vnow : 0, u.iv, u.act); c += b; }
    c += heap_key(cl);
    // the pool's own cabinet: cells, free list, id counter (cancel and cleanup leave different shapes), number of cleanups so far
    c += "P" + (pool ? pool_cab_i(pool, 0) : "gone" + pool_shape) + "c" + std::to_string(std::min(cleanups, 2)) + "u" + std::to_string(vsub);
    if (vf_any_missing()) { c += "!"; for (auto &o : h) c += ex.show(o); }
    // teardown is one more check: the pool dies with whatever is pending, one more pass, nothing may fire
    delete pool; pool = nullptr; for (auto &u : ts) u.live = false; vnow += 3; pass(loop); delete loop; return c; };
  ex.explore(depth); return 0;
}

// ---------------------------------------------------------------------------------------------
// heap lane (engine I): n one-shot timers with intervals 1..n ms enabled in EVERY order, one of them then disabled or destroyed,
// the clock then advanced 1 ms per pass: every remaining timer must fire exactly in the pass of its deadline, in deadline order.
static int heap_mode(const std::string &eng, int n, int part, int nparts) {
  Virt virt; const double deadline = real_now_s() + hx::env_int("VERIF_DEADLINE_S", 600);
  size_t runs = 0, bad = 0; std::vector<int> perm(n); for (int i = 0; i < n; i++) perm[i] = i + 1;
  size_t pi = 0;
  do { if ((int)(pi++ % (size_t)nparts) != part) continue;
    if (real_now_s() > deadline) { printf("@CAP heap lane %s n=%d part %d: deadline reached after %zu runs\n", eng.c_str(), n, part, runs); break; }
    for (int victim = 0; victim < n; victim++) for (int how = 0; how < 2; how++) {
      g_cb_count = 0; clock_reset(); Loop *loop = Loop::New(eng); auto cl = static_cast<CommonLoop *>(loop); depool(cl);
      std::vector<TimerEvent *> tm(n); std::vector<long long> fired_at(n, -1); std::string viol; long long last_dl = -1;
      for (int i = 0; i < n; i++) { tm[i] = loop->newTimerEvent("h"); tm[i]->initialize(ms(perm[i]), Event::Mode::kOneshot);
        tm[i]->setCallback([&, i] { cb_guard(100000, viol); if (i == victim) viol = "heap-removed-timer-fired"; if (fired_at[i] >= 0) viol = "heap-oneshot-fired-twice"; fired_at[i] = vnow;
          long long dl = 1000000 + perm[i]; if (vnow < dl) viol = "heap-fired-early"; if (dl < last_dl) viol = "heap-not-in-deadline-order"; last_dl = dl; });
        tm[i]->enable(); }
      if (how == 0) tm[victim]->disable(); else { delete tm[victim]; tm[victim] = nullptr; }
      for (int t = 1; t <= n + 1 && viol.empty(); t++) { vnow = 1000000 + t; pass(loop);
        for (int i = 0; i < n; i++) if (i != victim && perm[i] <= t && fired_at[i] < 0) viol = "heap-due-timer-did-not-fire"; }
      runs++;
      if (!viol.empty() && bad++ < 3) { std::string d; for (int i = 0; i < n; i++) d += std::to_string(perm[i]) + " "; printf("@VIOL sig=%s :: %s: enable one-shot timers with intervals [%s] in this order, then %s #%d (interval %d), then advance 1 ms per pass\n", viol.c_str(), eng.c_str(), d.c_str(), how ? "destroy" : "disable", victim, perm[victim]); }
      if (runs == 1) { std::string d; for (int i = 0; i < n; i++) d += std::to_string(perm[i]) + " "; printf("@SAMPLE heap lane %s n=%d: order [%s] remove #%d\n", eng.c_str(), n, d.c_str(), victim); }
      for (auto *t : tm) delete t; pass(loop); delete loop;
    }
  } while (std::next_permutation(perm.begin(), perm.end()));
  printf("@STAT states=%zu transitions=%zu executions=%zu violations=%zu\n", runs, runs * (size_t)(n + 1), runs, bad); return 0;
}

// heap lane B (engine I): n PERSISTENT timers with intervals 1..n ms enabled in EVERY order (so the re-arm path works on a 3-level heap),
// the clock advanced 1 ms per pass for k+n+3 passes; at tick k (1..n) one victim is removed - at top level before the pass, or inside the first
// callback of that pass that is not the victim's own - either destroyed, or disabled and enabled again two ticks later (removal, then an
// insert into the changed heap). Reference: per-timer deadline, += interval per firing; checked inside every callback and after every pass.
static int heapb_mode(const std::string &eng, int n, int part, int nparts, bool pooled) {
  Virt virt; const double deadline = real_now_s() + hx::env_int("VERIF_DEADLINE_S", 600);
  size_t runs = 0, passes = 0, bad = 0; std::vector<int> perm(n); for (int i = 0; i < n; i++) perm[i] = i + 1;
  size_t pi = 0; const long long T0 = 1000000;
  do { if ((int)(pi++ % (size_t)nparts) != part) continue;
    if (real_now_s() > deadline) { printf("@CAP heap lane B %s n=%d part %d: deadline reached after %zu runs\n", eng.c_str(), n, part, runs); break; }
    for (int victim = 0; victim < n; victim++) for (int k = 1; k <= n; k++) for (int how = 0; how < 2; how++) for (int place = 0; place < 2; place++) {
      if (how == 1 && place == 0 && k > 1) continue;      // destroying at top level is the plain heap lane's subject; kept for k=1 only (after the first firings)
      const int NTICK = k + n + 3;                        // long enough for every timer, and the re-enabled victim, to fire again after the removal
      g_cb_count = 0; clock_reset(); Loop *loop = Loop::New(eng); auto cl = static_cast<CommonLoop *>(loop); if (!pooled) depool(cl);
      std::vector<TimerEvent *> tm(n); std::vector<bool> en(n, true); std::vector<long long> dl(n); std::string viol; long long last_dl = -1; int tick = 0; bool removed = false; int removed_at = -1;
      auto remove = [&] { removed = true; removed_at = tick; en[victim] = false; if (how == 0) tm[victim]->disable(); else { delete tm[victim]; tm[victim] = nullptr; } };
      for (int i = 0; i < n; i++) { tm[i] = loop->newTimerEvent("h"); tm[i]->initialize(ms(perm[i]), Event::Mode::kPersist);
        tm[i]->setCallback([&, i] { cb_guard(100000, viol); if (!viol.empty()) return;
          if (!en[i]) { viol = tm[i] ? "heapb-disabled-timer-fired" : "heapb-destroyed-timer-fired"; return; }
          if (vnow < dl[i]) { viol = "heapb-fired-early"; return; }
          for (int u = 0; u < n; u++) if (en[u] && dl[u] < dl[i]) { viol = "heapb-not-in-deadline-order"; return; }
          if (dl[i] < last_dl) { viol = "heapb-not-in-deadline-order"; return; } last_dl = dl[i]; dl[i] += perm[i];
          if (place == 1 && !removed && tick >= k && i != victim) remove(); });
        tm[i]->enable(); dl[i] = vnow + perm[i]; }
      for (tick = 1; tick <= NTICK && viol.empty(); tick++) { vnow = T0 + tick;
        if (place == 0 && !removed && tick == k) remove();
        if (how == 0 && removed && !en[victim] && tick == removed_at + 2) { tm[victim]->enable(); en[victim] = true; dl[victim] = vnow + perm[victim]; }     // a fresh full interval
        last_dl = -1; pass(loop); passes++;
        for (int i = 0; i < n && viol.empty(); i++) { if (en[i] && dl[i] <= vnow) viol = "heapb-due-timer-did-not-fire"; if (tm[i] && tm[i]->isEnabled() != en[i]) viol = "heapb-isEnabled-mismatch"; } }
      runs++;
      if (!viol.empty() && bad++ < 3) { std::string d; for (int i = 0; i < n; i++) d += std::to_string(perm[i]) + " "; printf("@VIOL sig=%s :: %s%s: enable persistent timers with intervals [%s] in this order, advance 1 ms per pass; at tick %d %s #%d (interval %d) %s%s; failed at tick %d\n", viol.c_str(), eng.c_str(), pooled ? " (pooled records)" : "", d.c_str(), k, how ? "destroy" : "disable", victim, perm[victim], place ? "inside the first other callback of that pass" : "at top level before the pass", how ? "" : ", enable it again two ticks later", tick - 1); }
      if (runs == 1) { std::string d; for (int i = 0; i < n; i++) d += std::to_string(perm[i]) + " "; printf("@SAMPLE heap lane B %s n=%d: order [%s] remove #%d at tick %d, %d passes\n", eng.c_str(), n, d.c_str(), victim, k, NTICK); }
      for (auto *t : tm) delete t; pass(loop); delete loop;
    }
  } while (std::next_permutation(perm.begin(), perm.end()));
  printf("@STAT states=%zu transitions=%zu executions=%zu violations=%zu\n", runs, passes, runs, bad); return 0;
}

// late lane (engine I): every non-empty subset of {persistent 1 ms, persistent 7 ms, persistent 1000 ms, one-shot 5 ms}, enabled together or 3 ms
// apart, then the loop wakes L = 1e2 / 1e3 / 1e5 ms late (clock moved at once, or the last 3 ms by a tick and 400 us more), ONE pass, then the same
// lateness and one more pass. Reference: per-timer deadline, += interval per firing, so the pass owes exactly floor((now-t)/d) callbacks per
// persistent timer, interleaved in deadline order; nothing due may be left.
static int late_mode(const std::string &eng, bool pooled) {
  Virt virt; const double deadline = real_now_s() + hx::env_int("VERIF_DEADLINE_S", 600);
  const int N = 4; const long long IVS[N] = {1, 7, 1000, 5}; const bool PERS[N] = {true, true, true, false};
  size_t runs = 0, cbs = 0, bad = 0; bool capped = false;
  for (int mask = 1; mask < (1 << N) && !capped; mask++) for (int stagger = 0; stagger < 2; stagger++) for (long long L : {100LL, 1000LL, 100000LL}) for (int how = 0; how < 2; how++) {
    if (real_now_s() > deadline) { printf("@CAP late lane %s: deadline reached after %zu runs\n", eng.c_str(), runs); capped = true; break; }
    g_cb_count = 0; clock_reset(); Loop *loop = Loop::New(eng); auto cl = static_cast<CommonLoop *>(loop); if (!pooled) depool(cl);
    TimerEvent *tm[N]; bool en[N]; long long dl[N], t_en[N], fires[N]; std::string viol; long long last_dl = -1;
    for (int i = 0; i < N; i++) { en[i] = false; dl[i] = 0; fires[i] = 0; t_en[i] = 0; tm[i] = loop->newTimerEvent("l"); tm[i]->initialize(ms(IVS[i]), PERS[i] ? Event::Mode::kPersist : Event::Mode::kOneshot);
      tm[i]->setCallback([&, i] { cbs++; cb_guard(2000000, viol); if (!viol.empty()) return;
        if (!en[i]) { viol = "late-disabled-timer-fired"; return; }
        if (vnow < dl[i]) { viol = "late-fired-early"; return; }
        for (int u = 0; u < N; u++) if (en[u] && dl[u] < dl[i]) { viol = "late-not-in-deadline-order"; return; }
        if (dl[i] < last_dl) { viol = "late-not-in-deadline-order"; return; } last_dl = dl[i]; fires[i]++;
        if (PERS[i]) dl[i] += IVS[i]; else en[i] = false; }); }
    for (int i = 0; i < N; i++) if (mask & (1 << i)) { tm[i]->enable(); en[i] = true; dl[i] = vnow + IVS[i]; t_en[i] = vnow; if (stagger) vnow += 3; }
    for (int round = 0; round < 2 && viol.empty(); round++) {
      if (how == 0) vnow += L; else { vnow += L - 3; vnow += 3; tick_us(400); }
      last_dl = -1; pass(loop);
      for (int i = 0; i < N && viol.empty(); i++) { if (en[i] && dl[i] <= vnow) viol = "late-due-timer-did-not-fire";
        if ((mask & (1 << i)) && PERS[i] && fires[i] != (vnow - t_en[i]) / IVS[i]) viol = "late-firing-count-is-not-floor((now-t)/d)";
        if ((mask & (1 << i)) && !PERS[i] && fires[i] != 1) viol = "late-oneshot-did-not-fire-exactly-once"; } }
    runs++;
    if (!viol.empty() && bad++ < 3) printf("@VIOL sig=%s :: %s%s: enable timers mask=%d of {every 1 ms, every 7 ms, every 1000 ms, once after 5 ms}%s, let %lld ms pass, one loop pass, %lld ms more, one pass; firings %lld/%lld/%lld/%lld\n", viol.c_str(), eng.c_str(), pooled ? " (pooled records)" : "", mask, stagger ? " 3 ms apart" : " at the same time", L, L, fires[0], fires[1], fires[2], fires[3]);
    if (runs == 1 || (mask == 15 && L == 100000 && stagger == 1 && how == 0)) printf("@SAMPLE late lane %s: mask=%d lateness %lld ms twice: firings %lld/%lld/%lld/%lld\n", eng.c_str(), mask, L, fires[0], fires[1], fires[2], fires[3]);
    for (auto *t : tm) delete t; pass(loop); delete loop;
  }
  printf("@STAT states=%zu transitions=%zu executions=%zu violations=%zu late_lane_callbacks=%zu\n", runs, runs * 2, runs, bad, cbs); return 0;
}

int main(int argc, char **argv) {
  std::string mode = argc > 1 ? argv[1] : "timer", eng = argc > 2 ? argv[2] : "epoll";
  hx::install_crash_reporter("C02-crash");
  if (mode == "heap") { hx::set_current("heap lane"); return heap_mode(eng, argc > 3 ? atoi(argv[3]) : 6, argc > 4 ? atoi(argv[4]) : 0, argc > 5 ? atoi(argv[5]) : 1); }
  if (mode == "heapb") { hx::set_current("heap lane B"); return heapb_mode(eng, argc > 3 ? atoi(argv[3]) : 6, argc > 4 ? atoi(argv[4]) : 0, argc > 5 ? atoi(argv[5]) : 1, argc > 6 && atoi(argv[6]) != 0); }
  if (mode == "late") { hx::set_current("late lane"); return late_mode(eng, argc > 3 && atoi(argv[3]) != 0); }
  size_t depth = argc > 3 ? atoi(argv[3]) : 5; int cfg = argc > 4 ? atoi(argv[4]) : 0; g_part = argc > 5 ? atoi(argv[5]) : 0; g_nparts = argc > 6 ? atoi(argv[6]) : 1;
  if (cfg < 0 || cfg >= NCFG) cfg = 0;
  if (cfg == CFG_BIG_SLEEP && !hx::env_int("C02_BIG_SLEEP", 1)) { printf("@INFO configuration %d is switched off (set C02_BIG_SLEEP=1)\n@STAT states=0 transitions=0 executions=0\n", cfg); return 0; }
  return mode == "pool" ? pool_mode(eng, depth) : timer_mode(eng, depth, cfg);
}
