#include "hist.h"
#include <tbox/event/loop.h>
#include <tbox/event/fd_event.h>
#include "/repo/modules/event/engines/epoll/loop.h"
#include "/repo/modules/event/engines/select/loop.h"
#include <unistd.h>
#include <poll.h>
#include <fcntl.h>
#include <sys/wait.h>
#include <cstring>
#include <stdexcept>
using namespace tbox::event;
// Configuration: 2 pipes (fd A = pipe0 read end, fd B = pipe1 read end). Events: e0,e1 on A ; e2 on B. All read/persistent except e1 oneshot.
// ops: 0 enable e, 1 disable e, 2 feed pipe p (write 1 byte), 3 drain pipe p, 4 pass, 5 set script(e, action, target)
// actions in callback: 0 none, 1 disable self, 2 disable target, 3 destroy target, 4 enable target, 5 destroy target + new event on pipe2 read end (not ready) enabled
struct Op { int k,a,b,c; };
static const int NE=3;
struct World {
  Loop *loop; int p[3][2]; FdEvent *ev[NE+1]; bool alive[NE+1]; int act[NE+1], tgt[NE+1]; int fdidx[NE+1]; bool oneshot[NE+1];
  std::string viol; bool ready_snapshot[3]; int calls_this_pass[NE+1];
};
static std::string run_hist(const char*eng,const std::vector<Op>&h,std::string&viol){
  World w; w.loop=Loop::New(eng); for(int i=0;i<3;i++){ pipe2(w.p[i],O_NONBLOCK); }
  if(!strcmp(eng,"epoll")) static_cast<EpollLoop*>(w.loop)->fd_shared_data_pool_.keep_number_=0; else static_cast<SelectLoop*>(w.loop)->fd_shared_data_pool_.keep_number_=0;
  int fi[NE]={0,0,1}; bool os[NE]={false,true,false};
  auto mk=[&](int e,int pi,bool one){ w.ev[e]=w.loop->newFdEvent("e"); w.ev[e]->initialize(w.p[pi][0],FdEvent::kReadEvent,one?Event::Mode::kOneshot:Event::Mode::kPersist); w.alive[e]=true; w.act[e]=0; w.tgt[e]=0; w.fdidx[e]=pi; w.oneshot[e]=one;
    w.ev[e]->setCallback([&w,e](short m){
      if(!w.alive[e]) { w.viol="callback on destroyed event"; return; }
      if(!w.oneshot[e] && !w.ev[e]->isEnabled()) { w.viol="callback on disabled event e"+std::to_string(e); return; }
      if(w.oneshot[e] && w.ev[e]->isEnabled()) { w.viol="oneshot enabled in its callback"; return; }
      if(!(m&FdEvent::kReadEvent)) { w.viol="mask lacks subscribed bit"; return; }
      if(!w.ready_snapshot[w.fdidx[e]]) { w.viol="callback though descriptor not ready in snapshot e"+std::to_string(e); return; }
      if(++w.calls_this_pass[e]>1) { w.viol="called twice in one pass"; return; }
      int t=w.tgt[e];
      switch(w.act[e]){ case 1: w.ev[e]->disable(); break; case 2: if(w.alive[t]) w.ev[t]->disable(); break; case 4: if(w.alive[t]) w.ev[t]->enable(); break;
        case 3: case 5: if(w.alive[t]&&t!=e){ w.alive[t]=false; delete w.ev[t]; w.ev[t]=nullptr; if(w.act[e]==5 && !w.alive[NE]){ /* new event on pipe2 */ w.ev[NE]=w.loop->newFdEvent("n"); w.ev[NE]->initialize(w.p[2][0],FdEvent::kReadEvent,Event::Mode::kPersist); w.alive[NE]=true; w.fdidx[NE]=2; w.oneshot[NE]=false; w.act[NE]=0; int ne=NE; World*pw=&w; w.ev[NE]->setCallback([pw,ne](short){ if(!pw->ready_snapshot[2]) pw->viol="NEW event on never-ready fd got callback (stale readiness)"; }); w.ev[NE]->enable(); } } break; }
    }); };
  for(int e=0;e<NE;e++) mk(e,fi[e],os[e]); w.alive[NE]=false; w.ev[NE]=nullptr;
  try {
  for(auto&o:h){ if(!w.viol.empty()) break;
    switch(o.k){ case 0: if(w.alive[o.a]) w.ev[o.a]->enable(); break; case 1: if(w.alive[o.a]) w.ev[o.a]->disable(); break;
      case 2: { char c='x'; (void)write(w.p[o.a][1],&c,1);} break; case 3: { char b[64]; while(read(w.p[o.a][0],b,64)>0); } break;
      case 4: { for(int i=0;i<3;i++){ struct pollfd pf={w.p[i][0],POLLIN,0}; poll(&pf,1,0); w.ready_snapshot[i]=pf.revents&POLLIN; } memset(w.calls_this_pass,0,sizeof w.calls_this_pass);
                bool expect[NE+1]; for(int e=0;e<=NE;e++) expect[e]=w.alive[e]&&w.ev[e]->isEnabled()&&w.ready_snapshot[w.fdidx[e]];
                w.loop->runNext([]{}); w.loop->runLoop(Loop::Mode::kOnce); (void)expect; } break;
      case 5: w.act[o.a]=o.b; w.tgt[o.a]=o.c; break; } }
  } catch (const std::exception &ex) { w.viol=std::string("exception out of loop: ")+ex.what(); }
  viol=w.viol;
  std::string c; for(int e=0;e<=NE;e++){ char b[32]; snprintf(b,32,"%d%d%d%d|",(int)w.alive[e], w.alive[e]?(int)w.ev[e]->isEnabled():0, w.act[e], w.tgt[e]); c+=b; }
  for(int i=0;i<3;i++){ struct pollfd pf={w.p[i][0],POLLIN,0}; poll(&pf,1,0); c+=(pf.revents&POLLIN)?'R':'-'; }
  for(int e=0;e<=NE;e++) if(w.alive[e]) delete w.ev[e]; delete w.loop; for(int i=0;i<3;i++){close(w.p[i][0]);close(w.p[i][1]);}
  return c;
}
int main(int argc,char**argv){ int depth=argc>1?atoi(argv[1]):5; const char*eng=argc>2?argv[2]:"epoll";
  std::vector<Op> scripts; scripts.push_back({5,0,0,0}); for(int e=0;e<NE;e++){ scripts.push_back({5,e,1,0}); for(int t=0;t<NE;t++) if(t!=e) for(int a:{2,3,4,5}) scripts.push_back({5,e,a,t}); }
  size_t S=0,T=0,V=0;
  for(auto &sc:scripts){
  HistExplorer<Op> ex; ex.show=[](const Op&o){char b[48];snprintf(b,48,"(%d %d %d %d)",o.k,o.a,o.b,o.c);return std::string(b);};
  ex.menu=[&](const std::vector<Op>&h){ std::vector<Op> m; for(int e=0;e<NE;e++){ m.push_back({0,e,0,0}); m.push_back({1,e,0,0}); } for(int p=0;p<2;p++){ m.push_back({2,p,0,0}); m.push_back({3,p,0,0}); } m.push_back({4,0,0,0}); return m; };
  ex.run=[&](const std::vector<Op>&h0,std::string&viol){ std::vector<Op> h; h.push_back(sc); h.insert(h.end(),h0.begin(),h0.end()); int pp[2]; pipe(pp); pid_t pid=fork(); if(!pid){ close(pp[0]); int dn=open("/dev/null",1); dup2(dn,2); std::string v; std::string c=run_hist(eng,h,v); std::string out=c+"\n"+v; (void)write(pp[1],out.data(),out.size()); _exit(0);} close(pp[1]); std::string buf; char b[256]; ssize_t n; while((n=read(pp[0],b,256))>0) buf.append(b,n); close(pp[0]); int st; waitpid(pid,&st,0);
    if(WIFSIGNALED(st)||WEXITSTATUS(st)){ viol="child died (sanitizer/signal) status="+std::to_string(st); return std::string("dead"); }
    auto nl=buf.find('\n'); viol=buf.substr(nl+1); return buf.substr(0,nl); };
  printf("script e%d act%d tgt%d:\n",sc.a,sc.b,sc.c); ex.explore(depth,2); S+=ex.states; T+=ex.transitions; V+=ex.violations; }
  printf("TOTAL engine=%s depth=%d states=%zu transitions=%zu violations=%zu\n",eng,depth,S,T,V); }
