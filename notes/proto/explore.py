import subprocess, sys, os, time, collections
scen=sys.argv[1]; bound=int(sys.argv[2]); exe=sys.argv[3] if len(sys.argv)>3 else './tp'
def run(prefix, idx):
    tr=f'/tmp/proto/tr_{os.getpid()}.txt'
    env=dict(os.environ, SCEN=scen, TRACE=tr, PREFIX=','.join(map(str,prefix)))
    try:
        p=subprocess.run([exe],env=env,timeout=10,capture_output=True)
        rc=p.returncode
    except subprocess.TimeoutExpired:
        rc='timeout'
    pts=[];notes=[];end=None
    for l in open(tr):
        if l.startswith('P '):
            f=dict(x.split('=') for x in l.split()[2:])
            opts=[int(x) for x in f['opts'].split(',') if x]
            pts.append((int(f['cur']),int(f['curen']),int(f['pick']),opts))
        elif l.startswith('N '): notes.append(l[2:].strip())
        elif l.startswith('END'): end=l[4:].strip()
    return rc,pts,notes,end
stack=[[]]; n=0; outcomes=collections.Counter(); viol=[]; t0=time.time()
while stack:
    prefix=stack.pop(); rc,pts,notes,end=run(prefix,n); n+=1
    outcomes[(end,tuple(x for x in notes if not x.startswith('status')))]+=1
    bad = end!='ok' or any('VIOLATION' in x for x in notes)
    if bad and len(viol)<5: viol.append((prefix,[p[2] for p in pts],end,notes))
    # cost before each point
    cost=0; costs=[]
    for (cur,curen,pick,opts) in pts:
        costs.append(cost)
        if pick!=cur and curen: cost+=1
        if pick>=100: cost+=1
    for i in range(len(prefix),len(pts)):
        cur,curen,pick,opts=pts[i]
        for alt in opts:
            if alt==pick: continue
            c=costs[i]+ (1 if (curen and alt!=cur) or alt>=100 else 0)
            if c>bound: continue
            stack.append([p[2] for p in pts[:i]]+[alt])
print(f'scen={scen} bound={bound} executions={n} wall={time.time()-t0:.1f}s')
for k,v in outcomes.items(): print('  outcome',k,v)
for v in viol: print('  VIOL prefix=',v[0],'end=',v[2],v[3])
