#include "hist.h"
#include <tbox/util/buffer.h>
#include <deque>
#include <cstring>
#include <cstdint>
using tbox::util::Buffer;
struct Op { int k; int a; };  // k: 0 append a,1 reserve+commit a (write a of a+1),2 fetch a,3 hasRead a,4 readAll,5 shrink,6 X=Y,7 X=move(Y),8 swap,9 reset X,10 appendY a, 11 copy-construct Z from X then X=Z
static const int sizes[]={0,1,2,3,5};
int main(int argc,char**argv){
  int depth = argc>1?atoi(argv[1]):6;
  for (int cap : {0,1,2,4,8}) {
    HistExplorer<Op> ex;
    ex.show=[](const Op&o){ char b[32]; snprintf(b,32,"%d:%d",o.k,o.a); return std::string(b); };
    ex.menu=[&](const std::vector<Op>&){ std::vector<Op> m; for(int k:{0,1,2,3,10}) for(int a:sizes) m.push_back({k,a}); for(int k:{4,5,6,7,8,9,11}) m.push_back({k,0}); m.push_back({0,-1}); return m; };
    ex.run=[&](const std::vector<Op>&h, std::string &viol){
      Buffer X(cap), Y(cap); std::deque<uint8_t> mx,my; uint8_t ctr=1; size_t live=0;
      auto chk=[&](Buffer&b,std::deque<uint8_t>&m,const char*n){ if(b.readableSize()!=m.size()){ viol=std::string(n)+" size mismatch"; return; } for(size_t i=0;i<m.size();i++) if(b.readableBegin()[i]!=m[i]){ viol=std::string(n)+" content mismatch"; return; } };
      for (auto &o:h) { uint8_t tmp[64];
        switch(o.k){
          case 0: { int n=o.a<0?(int)X.writableSize():o.a; if(mx.size()+n>14) break; for(int i=0;i<n;i++){tmp[i]=ctr; mx.push_back(ctr++);} X.append(tmp,n); } break;
          case 10:{ int n=o.a; if(my.size()+n>14) break; for(int i=0;i<n;i++){tmp[i]=ctr; my.push_back(ctr++);} Y.append(tmp,n); } break;
          case 1: { int n=o.a; if(mx.size()+n>14) break; X.ensureWritableSize(n+1); if(X.writableSize()<(size_t)n+1 && n+1>0){viol="ensureWritableSize too small";break;} for(int i=0;i<n;i++){X.writableBegin()[i]=ctr; mx.push_back(ctr++);} X.hasWritten(n);} break;
          case 2: { size_t n=X.fetch(tmp,o.a); size_t e=std::min<size_t>(o.a,mx.size()); if(n!=e){viol="fetch count";break;} for(size_t i=0;i<n;i++){ if(tmp[i]!=mx.front()){viol="fetch content";} mx.pop_front(); } } break;
          case 3: { size_t e=std::min<size_t>(o.a,mx.size()); X.hasRead(o.a); for(size_t i=0;i<e;i++) mx.pop_front(); if((size_t)o.a>e) mx.clear(); } break;
          case 4: X.hasReadAll(); mx.clear(); break;
          case 5: X.shrink(); break;
          case 6: X=Y; mx=my; break;
          case 7: X=std::move(Y); mx=my; my.clear(); break;
          case 8: X.swap(Y); mx.swap(my); break;
          case 9: X.reset(); mx.clear(); break;
          case 11:{ Buffer Z(X); X.hasReadAll(); X=Z; } break;
        }
        if(!viol.empty()) break; chk(X,mx,"X"); if(!viol.empty()) break; chk(Y,my,"Y"); if(!viol.empty()) break; (void)live;
      }
      char c[128]; snprintf(c,128,"%zu,%zu,%zu|%zu,%zu,%zu|%d", X.buffer_size_,X.read_index_,X.write_index_,Y.buffer_size_,Y.read_index_,Y.write_index_,0);
      return std::string(c);
    };
    printf("cap=%d depth=%d\n",cap,depth); ex.explore(depth);
  }
}
