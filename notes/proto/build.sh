#!/bin/bash
# usage: build.sh <out> <asan|plain|tsan> <harness.cpp...> -- <repo sources...>
out=$1; tag=$2; shift 2
H=(); while [ "$1" != "--" ] && [ $# -gt 0 ]; do H+=("$1"); shift; done; shift
case $tag in
  asan) CC="g++ -fsanitize=address,undefined -fno-sanitize-recover=undefined -fno-sanitize=nonnull-attribute -fno-omit-frame-pointer";;
  tsan) CC="clang++ -fsanitize=thread";;
  *) CC="g++";;
esac
mkdir -p obj/$tag
objs=()
for s in "$@"; do o=obj/$tag/$(echo $s | sed 's#/repo/modules/##; s#/#_#g').o; objs+=($o); echo "$s $o"; done > .jobs
cat .jobs | xargs -P16 -L1 sh -c "[ \$1 -nt \$0 ] || $CC @flags.rsp -c \$0 -o \$1" 
$CC @flags.rsp -fno-access-control "${H[@]}" "${objs[@]}" $EXTRA -o $out -lpthread -ldl
