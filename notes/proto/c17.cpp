#include <tbox/event/loop.h>
#include <tbox/flow/action.h>
#include <tbox/flow/actions/parallel_action.h>
#include <tbox/flow/actions/sequence_action.h>
#include <tbox/flow/actions/repeat_action.h>
#include <cstdio>
#include <string>
using namespace tbox; using namespace tbox::flow;
static std::string TR;
struct Leaf : Action { char n; int starts=0; Leaf(event::Loop&l,char c):Action(l,"Leaf"),n(c){} bool isReady() const override {return true;}
  void onStart() override { Action::onStart(); starts++; TR+=std::string("start")+n+" "; }
  void fin(bool ok){ finish(ok); } void blk(){ block(); } };
int main(){
  auto loop=event::Loop::New(); auto pass=[&]{ loop->runNext([]{}); loop->runLoop(event::Loop::Mode::kOnce); };
  { // parallel: child finishes, parent paused before the notification is handled
    TR.clear(); ParallelAction par(*loop); auto a=new Leaf(*loop,'a'), b=new Leaf(*loop,'b'); par.addChild(a); par.addChild(b);
    int fin=0; par.setFinishCallback([&](bool ok,const Action::Reason&,const Action::Trace&){ fin++; TR+=ok?"FIN+ ":"FIN- "; });
    par.start(); a->fin(true); par.pause(); pass(); par.resume(); b->fin(true); for(int i=0;i<4;i++) pass();
    printf("C17 parallel pause-between-finish-and-handling: %s| root finished=%d state=%s\n", TR.c_str(), fin, ToString(par.state()).c_str());
  }
  { // block notification queued, then stop
    TR.clear(); auto a=new Leaf(*loop,'a'); SequenceAction seq(*loop); seq.addChild(a);
    int blocked=0; seq.setBlockCallback([&](const Action::Reason&,const Action::Trace&){ blocked++; });
    seq.start(); a->blk(); pass(); /* child block delivered to seq -> seq.block -> queues root block cb */ seq.stop(); pass(); pass();
    printf("C17 root block notification delivered after stop(): %d (state=%s)\n", blocked, ToString(seq.state()).c_str());
  }
  { TR.clear(); auto a=new Leaf(*loop,'a'); RepeatAction rep(*loop, a, 0); int fin=0; rep.setFinishCallback([&](bool,const Action::Reason&,const Action::Trace&){fin++;});
    rep.start(); for(int i=0;i<3;i++){ if(a->state()==Action::State::kRunning) a->fin(true); pass(); pass(); }
    printf("C17 repeat times=0: leaf starts=%d root finished=%d\n", a->starts, fin); rep.stop(); }
  delete loop;
}
