#include <tbox/event/loop.h>
#include <tbox/event/fd_event.h>
#include <tbox/network/buffered_fd.h>
#include <unistd.h>
#include <sys/socket.h>
#include <cstdio>
#include <string>
using namespace tbox; using namespace tbox::event;
int main(){
  for (const char *eng : {"epoll","select"}) {
    Loop *loop = Loop::New(eng);
    int p[2]; pipe(p);
    FdEvent *a = loop->newFdEvent("a"), *b = loop->newFdEvent("b");
    a->initialize(p[0], FdEvent::kReadEvent, Event::Mode::kPersist);
    b->initialize(p[0], FdEvent::kReadEvent, Event::Mode::kPersist);
    int b_called_while_disabled = 0;
    a->setCallback([&](short){ b->disable(); });
    b->setCallback([&](short){ if (!b->isEnabled()) b_called_while_disabled++; });
    a->enable(); b->enable();
    write(p[1], "x", 1);
    loop->runNext([]{}); loop->runLoop(Loop::Mode::kOnce);
    printf("%s: C03 sibling disabled in callback still called: %d\n", eng, b_called_while_disabled);
    delete a; delete b; close(p[0]); close(p[1]);
    // C06: send before enable
    int sv[2]; socketpair(AF_UNIX, SOCK_STREAM, 0, sv);
    {
      network::BufferedFd bfd(loop);
      bfd.initialize(util::Fd(sv[0]));
      bfd.send("hello", 5);     // before enable
      bfd.enable();
      for (int i=0;i<5;i++){ loop->runNext([]{}); loop->runLoop(Loop::Mode::kOnce); }
      bfd.send("world", 5);     // after enable
      for (int i=0;i<5;i++){ loop->runNext([]{}); loop->runLoop(Loop::Mode::kOnce); }
      char buf[32]; ssize_t n = recv(sv[1], buf, sizeof buf, MSG_DONTWAIT);
      printf("%s: C06 peer received %zd bytes of 10 after 10 passes\n", eng, n);
    }
    close(sv[1]);
    delete loop;
  }
}
