#include <cstdlib>
#include "/repo/modules/event/timer_event_impl.h"
#include <tbox/flow/state_machine.h>
#include <tbox/event/loop.h>
#include <tbox/terminal/terminal.h>
#include <tbox/terminal/connection.h>
#include <tbox/terminal/session.h>
#include <tbox/network/dns_request.h>
#include <tbox/alarm/cron_alarm.h>
#include <tbox/alarm/weekly_alarm.h>
#include <unistd.h>
#include <fcntl.h>
#include <sys/wait.h>
#include <sys/time.h>
#include <sys/resource.h>
#include <cstdio>
#include <cstring>
#include <string>
#include <vector>
#include <functional>
using namespace tbox;
static long long v_mono_ms=5000000, v_wall_us=(getenv("WALL")?atoll(getenv("WALL")):1700000000LL)*1000000;
extern "C" int clock_gettime(clockid_t k, struct timespec *ts){ if(k==CLOCK_REALTIME){ts->tv_sec=v_wall_us/1000000; ts->tv_nsec=(v_wall_us%1000000)*1000;} else {ts->tv_sec=v_mono_ms/1000; ts->tv_nsec=(v_mono_ms%1000)*1000000;} return 0; }
extern "C" int gettimeofday(struct timeval *tv, void*){ tv->tv_sec=v_wall_us/1000000; tv->tv_usec=v_wall_us%1000000; return 0; }
static void child(const char *name, std::function<void()> f){
  fflush(stdout); pid_t p=fork(); if(!p){ int dn=open("/dev/null",1); dup2(dn,2); struct rlimit rl={8<<20,8<<20}; setrlimit(RLIMIT_STACK,&rl); try { f(); fflush(stdout);} catch (const std::exception &e) { printf("  %-40s -> EXCEPTION %s\n",name,e.what()); fflush(stdout); _exit(7);} _exit(0);} 
  int st; waitpid(p,&st,0); if(WIFSIGNALED(st)) printf("  %-40s -> SIGNAL %d\n",name,WTERMSIG(st)); else if(WEXITSTATUS(st)==7); else if(WEXITSTATUS(st)) printf("  %-40s -> exit %d\n",name,WEXITSTATUS(st)); else printf("  %-40s -> ok\n",name);
}
struct Conn : terminal::Connection { std::string out; bool send(const terminal::SessionToken&,char c) override {out.push_back(c);return true;} bool send(const terminal::SessionToken&,const std::string&s) override {out+=s;return true;} bool endSession(const terminal::SessionToken&) override {return true;} bool isValid(const terminal::SessionToken&) const override {return true;} };
struct Dns : network::DnsRequest { using DnsRequest::DnsRequest; void feed(const std::vector<uint8_t>&d){ network::SockAddr a; onUdpRecv(d.data(), d.size(), a);} };
int main(){
  child("C16 stop parent with active sub-machine", []{
    flow::StateMachine p, s; std::string tr;
    p.newState(1,[&](flow::Event){tr+="P1+ ";},[&](flow::Event){tr+="P1- ";});
    s.newState(1,[&](flow::Event){tr+="S1+ ";},[&](flow::Event){tr+="S1- ";});
    p.setSubStateMachine(1,&s); p.start(); p.stop();
    printf("    trace: %s| sub.isRunning=%d\n", tr.c_str(), (int)s.isRunning()); });
  child("C13 '!!' on empty history", []{ auto loop=event::Loop::New(); terminal::Terminal t(loop); Conn c; auto st=t.newSession(&c); t.onBegin(st); t.onRecvString(st,"!!\r\n"); printf("    survived\n"); });
  child("C13 '!99999999999'", []{ auto loop=event::Loop::New(); terminal::Terminal t(loop); Conn c; auto st=t.newSession(&c); t.onBegin(st); t.onRecvString(st,"!99999999999\r\n"); printf("    survived\n"); });
  child("C13 'exit' twice in one segment", []{ auto loop=event::Loop::New(); terminal::Terminal t(loop); Conn c; auto st=t.newSession(&c); t.onBegin(st); t.onRecvString(st,"exit\r\nexit\r\n"); loop->runLoop(event::Loop::Mode::kOnce); loop->runNext([]{}); loop->runLoop(event::Loop::Mode::kOnce); printf("    survived\n"); });
  child("C15 self-referencing compression pointer", []{ auto loop=event::Loop::New(); Dns d(loop, {network::IPAddress::FromString("127.0.0.1")}); int n=0; auto id=d.request(network::DomainName("a.b"),[&](const network::DnsRequest::Result&){n++;});
    std::vector<uint8_t> pk={ (uint8_t)(id>>8),(uint8_t)id, 0x81,0x80, 0,1, 0,0, 0,0, 0,0, 0xc0,0x0c, 0,1,0,1 }; d.feed(pk); printf("    survived cb=%d\n",n); });
  child("C15 1-byte datagram (truncated id)", []{ auto loop=event::Loop::New(); Dns d(loop, {network::IPAddress::FromString("127.0.0.1")}); int n=0; d.request(network::DomainName("a.b"),[&](const network::DnsRequest::Result&r){n++; printf("    cb status=%d a=%zu\n",(int)r.status,r.a_vec.size());}); std::vector<uint8_t> pk={0}; d.feed(pk); printf("    survived cb=%d\n",n); });
  child("C20 cron yearly: armed delay vs distance", []{ auto loop=event::Loop::New(); alarm::CronAlarm a(loop); a.setTimezone(0); a.initialize("0 0 0 1 1 *"); a.setCallback([]{}); a.enable();
    uint32_t remain=a.remainSeconds(); long long ms = ((event::TimerEventImpl*)a.sp_timer_ev_)->interval_.count(); printf("    remainSeconds=%u (%.1f days)  armed timer interval=%lld ms (%.1f days)\n", remain, remain/86400.0, ms, ms/86400000.0); });
  return 0;
}
