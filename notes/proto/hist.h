// throwaway prototype of engine H: BFS over op histories with canonical-state dedup
#pragma once
#include <vector>
#include <string>
#include <deque>
#include <unordered_set>
#include <functional>
#include <cstdio>
template<class Op> struct HistExplorer {
  using Hist = std::vector<Op>;
  std::function<std::vector<Op>(const Hist&)> menu;                      // enabled ops after history
  std::function<std::string(const Hist&, std::string&)> run;             // replay on fresh object; returns canon, sets viol
  std::function<std::string(const Op&)> show;
  size_t states=0, transitions=0, violations=0, maxdepth=0; std::vector<std::string> samples; bool fixpoint=true;
  void explore(size_t depth, size_t max_report=5) {
    std::unordered_set<std::string> seen; std::deque<Hist> fr; std::string v;
    seen.insert(run(Hist(), v)); fr.push_back(Hist()); states=1;
    while (!fr.empty()) { Hist h=fr.front(); fr.pop_front();
      for (auto &op : menu(h)) { Hist h2=h; h2.push_back(op); std::string viol; std::string c=run(h2,viol); transitions++;
        if (!viol.empty()) { violations++; if (violations<=max_report) { std::string s; for(auto&o:h2) s+=show(o)+" "; printf("  VIOLATION %s :: %s\n", viol.c_str(), s.c_str()); } continue; }
        if (seen.insert(c).second) { states++; if (h2.size()>maxdepth) maxdepth=h2.size(); if (h2.size()<depth) fr.push_back(h2); else fixpoint=false; } } }
    printf("  states=%zu transitions=%zu violations=%zu maxdepth=%zu fixpoint=%d\n",states,transitions,violations,maxdepth,(int)fixpoint);
  }
};
