#include <tbox/event/loop.h>
#include <tbox/network/buffered_fd.h>
#include <unistd.h>
#include <sys/socket.h>
#include <sys/syscall.h>
#include <sys/uio.h>
#include <errno.h>
#include <cstdio>
#include <string>
using namespace tbox;
static int inj_fd=-1; static int clamp_next=-1; static bool eagain_next=false; static int writes_seen=0;
extern "C" ssize_t write(int fd,const void*b,size_t n){ if(fd==inj_fd){ writes_seen++; if(eagain_next){ eagain_next=false; errno=EAGAIN; return -1; } if(clamp_next>=0 && (size_t)clamp_next<n){ n=clamp_next; clamp_next=-1; } } return syscall(SYS_write,fd,b,n); }
int main(){
  for (const char *eng : {"epoll","select"}) for(int dev=0; dev<3; dev++){
    auto loop=event::Loop::New(eng); int sv[2]; socketpair(AF_UNIX,SOCK_STREAM|SOCK_NONBLOCK,0,sv); inj_fd=sv[0]; writes_seen=0; int complete=0; std::string peer;
    { network::BufferedFd bfd(loop); bfd.initialize(util::Fd(sv[0])); bfd.setSendCompleteCallback([&]{complete++;}); bfd.enable();
      if(dev==1) clamp_next=2; if(dev==2) eagain_next=true;
      bfd.send("hello",5); bfd.send("world",5);
      for(int i=0;i<6;i++){ loop->runNext([]{}); loop->runLoop(event::Loop::Mode::kOnce); char buf[64]; ssize_t n=recv(sv[1],buf,sizeof buf,MSG_DONTWAIT); if(n>0) peer.append(buf,n); }
    }
    printf("%s deviation=%d: peer got '%s' send_complete=%d writes=%d\n",eng,dev,peer.c_str(),complete,writes_seen);
    inj_fd=-1; close(sv[1]); delete loop; }
}
