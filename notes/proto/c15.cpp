#include <tbox/event/loop.h>
#include <tbox/network/dns_request.h>
#include <cstdio>
#include <cstring>
#include <string>
#include <vector>
using namespace tbox;
struct Dns : network::DnsRequest { using DnsRequest::DnsRequest; void feed(const std::vector<uint8_t>&d){ network::SockAddr a; onUdpRecv(d.data(), d.size(), a);} };
__attribute__((noinline)) static void paint(unsigned char v){ volatile unsigned char buf[16384]; for(size_t i=0;i<sizeof buf;i++) buf[i]=v; asm volatile("":::"memory"); }
static std::string run(const std::vector<uint8_t>&pk, unsigned char pv, uint16_t *idout){
  auto loop=event::Loop::New(); std::string res="nocb"; {
  Dns d(loop, {network::IPAddress::FromString("127.0.0.1")});
  auto id=d.request(network::DomainName("a.b"),[&](const network::DnsRequest::Result&r){ res="st="+std::to_string((int)r.status); for(auto&a:r.a_vec) res+=" A:"+a.ip.toString(); for(auto&c:r.cname_vec) res+=" C:"+c.cname.toString(); });
  *idout=id; std::vector<uint8_t> p=pk; if(p.size()>=2){ p[0]=id>>8; p[1]=id&0xff; }
  paint(pv); d.feed(p); }
  delete loop; return res; }
int main(){
  // valid reply: header, question a.b A IN, answer: ptr to name, type A, class IN, ttl, len 4, ip 1.2.3.4
  std::vector<uint8_t> base={0,0, 0x81,0x80, 0,1, 0,1, 0,0, 0,0, 1,'a',1,'b',0, 0,1, 0,1, 0xc0,0x0c, 0,1, 0,1, 0,0,0,60, 0,4, 1,2,3,4};
  uint16_t id; printf("full: %s\n", run(base,0x00,&id).c_str());
  int differ=0,total=0; for(size_t cut=0;cut<base.size();cut++){ std::vector<uint8_t> t(base.begin(),base.begin()+cut); std::string r1=run(t,0x00,&id), r2=run(t,0xA5,&id); total++; if(r1!=r2){ differ++; if(differ<=8) printf("  cut=%zu paint00 -> %-28s paintA5 -> %s\n",cut,r1.c_str(),r2.c_str()); } else if(r1!="nocb" && r1.find("A:")!=std::string::npos && cut<base.size()) { printf("  cut=%zu both paints report %s (address not in datagram?)\n",cut,r1.c_str()); } }
  printf("truncations=%d paint-dependent=%d\n",total,differ);
}
