#include <tbox/event/loop.h>
#include <thread>
#include <mutex>
#include <condition_variable>
#include <vector>
#include <cstdio>
#include <cstdlib>
#include <string>
#include "/repo/modules/event/common_loop.h"
static tbox::event::Loop *g_loop;
extern "C" void sched_note(const char*);
static void dl(){ auto *cl=static_cast<tbox::event::CommonLoop*>(g_loop); char b[128]; snprintf(b,sizeof b,"deadlock-state has_commit=%d queue=%zu running=%d", (int)cl->has_commit_run_req_, cl->run_in_loop_func_queue_.size(), (int)(cl->sp_run_read_event_!=nullptr)); sched_note(b);}
extern "C" { void sched_on_deadlock(void(*)()); void sched_begin(const char*,const char*); void sched_end(); void sched_note(const char*); }
using namespace tbox::event;
int main(){
  int scen = atoi(getenv("SCEN")?getenv("SCEN"):"0");   // 0: one run; 1: two runs (re-run)
  const char *eng = getenv("ENG")?getenv("ENG"):"epoll";
  sched_begin(getenv("PREFIX"), getenv("TRACE"));
  Loop *loop = Loop::New(eng); g_loop=loop; sched_on_deadlock(dl);
  std::mutex m; std::condition_variable cv; int runs_done=0; const int runs_total = scen?2:1;
  std::vector<int> order; std::vector<std::thread::id> who; int ran[8]={0};
  std::thread::id Lid = std::this_thread::get_id();
  auto task=[&](int id,bool ex){ return [&,id,ex]{ ran[id]++; order.push_back(id); who.push_back(std::this_thread::get_id()); if(ex) loop->exitLoop(); std::lock_guard<std::mutex> g(m); cv.notify_all(); }; };
  std::thread P([&]{
    loop->runInLoop(task(0,true));
    loop->runInLoop(task(1,false));
    for (int i=2;i<6;i++){
      { std::lock_guard<std::mutex> g(m); if (runs_done==runs_total) break; }
      loop->runInLoop(task(i,true));
      std::unique_lock<std::mutex> lk(m); cv.wait(lk,[&]{ return ran[i]>0 || runs_done==runs_total; });
    }
  });
  for (int r=0;r<runs_total;r++){ loop->runLoop(); std::lock_guard<std::mutex> g(m); runs_done++; cv.notify_all(); }
  P.join();
  delete loop;
  std::string s="order="; for(int x:order) s+=std::to_string(x)+","; sched_note(s.c_str());
  bool ok=true; for(size_t i=0;i<order.size();i++){ if(ran[order[i]]!=1) ok=false; if(who[i]!=Lid) ok=false; if(i&&order[i]<order[i-1]) ok=false; }
  if(ran[0]!=1||ran[1]!=1) ok=false;
  if(!ok) sched_note("VIOLATION exactly-once/order/thread");
  sched_end();
}
