#include "hist.h"
#include <tbox/event/loop.h>
#include <tbox/event/timer_event.h>
#include "/repo/modules/event/common_loop.h"
#include <time.h>
#include <map>
#include <set>
#include <algorithm>
static long long vnow=1000000;
extern "C" int clock_gettime(clockid_t, struct timespec *ts){ ts->tv_sec=vnow/1000; ts->tv_nsec=(vnow%1000)*1000000; return 0; }
using namespace tbox::event;
// ops: 0 enable t, 1 disable t, 2 destroy t, 3 advance d + pass, 4 set callback script of t: on fire -> action (a: 0 none,1 disable self,2 disable other o,3 destroy other o,4 re-enable self)
struct Op { int k,t,a,o; };
static const int NT=3; static const int IV[NT]={2,3,2}; static const bool PERSIST[NT]={true,false,true};
int main(int argc,char**argv){
  int depth=argc>1?atoi(argv[1]):5; const char*eng=argc>2?argv[2]:"epoll";
  HistExplorer<Op> ex;
  ex.show=[](const Op&o){char b[48];snprintf(b,48,"(%d t%d a%d o%d)",o.k,o.t,o.a,o.o);return std::string(b);};
  ex.menu=[&](const std::vector<Op>&h){ std::vector<Op> m; for(int t=0;t<NT;t++){ m.push_back({0,t,0,0}); m.push_back({1,t,0,0}); m.push_back({2,t,0,0}); }
    for(int d:{0,1,2,5}) m.push_back({3,0,d,0});
    if(h.size()<2) for(int t=0;t<NT;t++){ m.push_back({4,t,1,0}); m.push_back({4,t,4,0}); for(int o=0;o<NT;o++) if(o!=t){ m.push_back({4,t,2,o}); m.push_back({4,t,3,o}); } }
    return m; };
  ex.run=[&](const std::vector<Op>&h, std::string&viol){
    vnow=1000000; Loop*loop=Loop::New(eng); TimerEvent* tm[NT]; bool alive[NT]; int act[NT]={0},oth[NT]={0};
    // reference model
    struct M { bool en=false; long long dl=0; }; M md[NT];
    std::vector<std::pair<long long,int>> fired;    // (deadline-as-per-model, timer) for this pass
    for(int t=0;t<NT;t++){ tm[t]=loop->newTimerEvent("t"); tm[t]->initialize(std::chrono::milliseconds(IV[t]), PERSIST[t]?Event::Mode::kPersist:Event::Mode::kOneshot); alive[t]=true; }
    auto m_enable=[&](int t){ if(!md[t].en){ md[t].en=true; md[t].dl=vnow+IV[t]; } };
    auto m_disable=[&](int t){ md[t].en=false; };
    long long last_dl=-1;
    for(int t=0;t<NT;t++) tm[t]->setCallback([&,t]{
      // oracle at callback time
      if(!alive[t]) { viol="callback on destroyed timer"; return; }
      if(!md[t].en) { viol="callback on disabled timer"; return; }
      if(vnow<md[t].dl) { viol="fired early"; return; }
      // must be the minimum deadline among enabled timers
      for(int u=0;u<NT;u++) if(alive[u]&&md[u].en&&md[u].dl<md[t].dl) { viol="not in deadline order"; return; }
      if(md[t].dl<last_dl) { viol="deadline order regress"; return; } last_dl=md[t].dl;
      if(PERSIST[t]) md[t].dl+=IV[t]; else { md[t].en=false; if(tm[t]->isEnabled()) { viol="oneshot still enabled in callback"; return; } }
      switch(act[t]){ case 1: tm[t]->disable(); m_disable(t); break;
        case 2: if(alive[oth[t]]){ tm[oth[t]]->disable(); m_disable(oth[t]); } break;
        case 3: if(alive[oth[t]]){ int o=oth[t]; m_disable(o); alive[o]=false; auto p=tm[o]; tm[o]=nullptr; p->disable(); loop->runNext([p]{ delete p; }); } break;
        case 4: if(!PERSIST[t]){ tm[t]->enable(); m_enable(t);} break; }
    });
    for(auto&o:h){ if(!viol.empty()) break;
      switch(o.k){
        case 0: if(alive[o.t]){ tm[o.t]->enable(); m_enable(o.t);} break;
        case 1: if(alive[o.t]){ tm[o.t]->disable(); m_disable(o.t);} break;
        case 2: if(alive[o.t]){ m_disable(o.t); alive[o.t]=false; delete tm[o.t]; tm[o.t]=nullptr; } break;
        case 3: { vnow+=o.a; last_dl=-1; loop->runNext([]{}); loop->runLoop(Loop::Mode::kOnce);
                  for(int t=0;t<NT;t++) if(alive[t]&&md[t].en&&md[t].dl<=vnow&&viol.empty()) viol="due timer did not fire (skipped)"; } break;
        case 4: act[o.t]=o.a; oth[o.t]=o.o; break; }
      for(int t=0;t<NT&&viol.empty();t++) if(alive[t]&&tm[t]->isEnabled()!=md[t].en) viol="isEnabled mismatch";
    }
    // canon: per timer alive,en,dl-now,act,oth + heap size
    std::string c; for(int t=0;t<NT;t++){ char b[64]; snprintf(b,64,"%d%d:%lld:%d%d|",(int)alive[t],(int)md[t].en,md[t].en?md[t].dl-vnow:0,act[t],oth[t]); c+=b; }
    auto cl=static_cast<CommonLoop*>(loop); c+=std::to_string(cl->timer_min_heap_.size())+"/"+std::to_string(cl->timer_cabinet_.size());
    for(int t=0;t<NT;t++) if(alive[t]) delete tm[t]; delete loop; return c; };
  printf("engine=%s depth=%d\n",eng,depth); ex.explore(depth);
}
