#include <tbox/event/loop.h>
#include <tbox/event/timer_event.h>
#include <time.h>
#include <sys/time.h>
#include <cstdio>
#include <vector>
#include <string>
static long long vnow_ms = 1000000;   // virtual monotonic ms
extern "C" int clock_gettime(clockid_t k, struct timespec *ts){ (void)k; ts->tv_sec = vnow_ms/1000; ts->tv_nsec=(vnow_ms%1000)*1000000; return 0; }
using namespace tbox::event;
int main(){
  for (const char *eng : {"epoll","select"}) {
    vnow_ms = 1000000;
    Loop *loop = Loop::New(eng);
    std::string log;
    auto a = loop->newTimerEvent("a"); a->initialize(std::chrono::milliseconds(2), Event::Mode::kPersist);
    auto b = loop->newTimerEvent("b"); b->initialize(std::chrono::milliseconds(3), Event::Mode::kOneshot);
    auto c = loop->newTimerEvent("c"); c->initialize(std::chrono::milliseconds(5), Event::Mode::kPersist);
    a->setCallback([&]{ log += "a@"+std::to_string(vnow_ms-1000000)+" "; });
    b->setCallback([&]{ log += "b@"+std::to_string(vnow_ms-1000000)+" "; c->disable(); });
    c->setCallback([&]{ log += "c@"+std::to_string(vnow_ms-1000000)+" "; });
    a->enable(); b->enable(); c->enable();
    auto pass=[&]{ loop->runNext([]{}); loop->runLoop(Loop::Mode::kOnce); };
    struct timespec t0,t1; 
    pass(); vnow_ms+=1; pass(); vnow_ms+=6; pass();  // wake late by several periods
    vnow_ms+=2; pass();
    printf("%s: %s | b.enabled=%d c.enabled=%d\n", eng, log.c_str(), b->isEnabled(), c->isEnabled());
    delete a; delete b; delete c; delete loop;
  }
}
