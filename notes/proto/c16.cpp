#include <tbox/flow/state_machine.h>
#include <vector>
#include <string>
#include <cstdio>
#include <functional>
#include <set>
using namespace tbox::flow;
// machine definition
struct RouteD { int ev; int to; int guard; /*0 true,1 false*/ };
struct StateD { int id; std::vector<RouteD> routes; int sub; /* -1 none, else index of machine def */ };
struct MachD { std::vector<StateD> states; };
static std::string TR;  // shared trace
static void T(const std::string&s){ TR+=s+" "; }
// real
struct Real { std::vector<StateMachine*> sm; std::vector<MachD> defs;
  void build(const std::vector<MachD>&d){ defs=d; for(size_t i=0;i<d.size();i++) sm.push_back(new StateMachine);
    for(size_t i=0;i<d.size();i++){ auto*m=sm[i]; std::string p="m"+std::to_string(i);
      for(auto&s:d[i].states) m->newState(s.id,[=](Event e){T(p+"+"+std::to_string(s.id)+"/"+std::to_string(e.id));},[=](Event e){T(p+"-"+std::to_string(s.id)+"/"+std::to_string(e.id));});
      for(auto&s:d[i].states){ int ri=0; for(auto&r:s.routes){ int k=ri++; m->addRoute(s.id,r.ev,r.to,[=](Event e){T(p+"g"+std::to_string(s.id)+"."+std::to_string(k)); return r.guard==0;},[=](Event e){T(p+"a"+std::to_string(s.id)+"."+std::to_string(k));}); } if(s.sub>=0) m->setSubStateMachine(s.id,sm[s.sub]); }
      m->setStateChangedCallback([=](int f,int t,Event e){T(p+"c"+std::to_string(f)+">"+std::to_string(t));}); } }
  ~Real(){ for(auto*m:sm) delete m; } };
// reference interpreter (semantics as stated in the property)
struct Ref { std::vector<MachD> defs; std::vector<int> cur; std::vector<bool> running; std::vector<int> last;
  void build(const std::vector<MachD>&d){ defs=d; cur.assign(d.size(),-1); running.assign(d.size(),false); last.assign(d.size(),-1);}  
  const StateD* st(int m,int id){ for(auto&s:defs[m].states) if(s.id==id) return &s; return nullptr; }
  bool start(int m){ if(running[m]) return false; running[m]=true; cur[m]=defs[m].states[0].id; std::string p="m"+std::to_string(m); T(p+"+"+std::to_string(cur[m])+"/0"); auto s=st(m,cur[m]); if(s->sub>=0) start(s->sub); return true; }
  void stop(int m){ if(!running[m]) return; std::string p="m"+std::to_string(m); auto s=st(m,cur[m]); if(s && s->sub>=0) stop(s->sub);   // property: every entered state exited when stopped
    if(cur[m]!=0) T(p+"-"+std::to_string(cur[m])+"/0"); cur[m]=-1; running[m]=false; }
  bool run(int m,int e){ if(!running[m]) return false; std::string p="m"+std::to_string(m); auto s=st(m,cur[m]);
    if(s && s->sub>=0){ bool r=run(s->sub,e); if(!(running[s->sub]&&cur[s->sub]==0)) return r; stop(s->sub); }
    if(!s) return false; // terminal state: no routes
    int ri=0; const RouteD*tk=nullptr; int tki=0; for(auto&r:s->routes){ int k=ri++; if(r.ev!=0&&r.ev!=e) continue; T(p+"g"+std::to_string(s->id)+"."+std::to_string(k)); if(r.guard!=0) continue; tk=&r; tki=k; break; }
    if(!tk) return false;
    T(p+"-"+std::to_string(cur[m])+"/"+std::to_string(e)); last[m]=cur[m]; T(p+"a"+std::to_string(s->id)+"."+std::to_string(tki)); cur[m]=tk->to; if(cur[m]!=0) T(p+"+"+std::to_string(cur[m])+"/"+std::to_string(e)); T(p+"c"+std::to_string(last[m])+">"+std::to_string(cur[m]));
    auto ns=st(m,cur[m]); if(ns&&ns->sub>=0){ start(ns->sub); run(ns->sub,e);} return true; } };
int main(){
  // enumerate route options
  std::vector<RouteD> ropts; for(int ev:{0,1,2}) for(int to:{0,1,2}) for(int g:{0,1}) ropts.push_back({ev,to,g});
  // machine family: 2 states, state1 has routes (r1[,r2]) , state2 has one route r3
  long cases=0, mism=0; std::set<std::string> kinds;
  std::vector<std::vector<int>> seqs; // op sequences: ops 0 start,1 run1,2 run2,3 stop,4 restart ; depth 4
  for(int a=0;a<5;a++)for(int b=0;b<5;b++)for(int c=0;c<5;c++)for(int d=0;d<5;d++) seqs.push_back({0,a,b,c,d});
  for(int nested=0;nested<2;nested++)
  for(size_t i1=0;i1<ropts.size();i1++) for(size_t i2=0;i2<ropts.size();i2+=5) for(size_t i3=0;i3<ropts.size();i3+=4){
    MachD top; top.states.push_back({1,{ropts[i1],ropts[i2]},nested?1:-1}); top.states.push_back({2,{ropts[i3]},-1});
    MachD sub; sub.states.push_back({1,{{1,2,0}},-1}); sub.states.push_back({2,{{2,0,0}},-1});
    std::vector<MachD> defs={top}; if(nested) defs.push_back(sub);
    for(auto&sq:seqs){ cases++;
      Real R; R.build(defs); Ref F; F.build(defs); std::string tr_real,tr_ref;
      TR.clear(); for(int op:sq){ bool r=false; switch(op){case 0:r=R.sm[0]->start();break;case 1:r=R.sm[0]->run(1);break;case 2:r=R.sm[0]->run(2);break;case 3:R.sm[0]->stop();break;case 4:r=R.sm[0]->restart();break;} T(std::string("=")+(r?"1":"0")+":"+std::to_string(R.sm[0]->currentState())+(R.sm[0]->isRunning()?"R":"S")); } tr_real=TR;
      TR.clear(); for(int op:sq){ bool r=false; switch(op){case 0:r=F.start(0);break;case 1:r=F.run(0,1);break;case 2:r=F.run(0,2);break;case 3:F.stop(0);break;case 4:F.stop(0); r=F.start(0);break;} T(std::string("=")+(r?"1":"0")+":"+std::to_string(F.cur[0])+(F.running[0]?"R":"S")); } tr_ref=TR;
      if(tr_real!=tr_ref){ bool hasstop=false; for(int o:sq) if(o>=3) hasstop=true; if(!hasstop) kinds.insert("NO-STOP-MISMATCH"); mism++; if(mism<=4){ printf("MISMATCH nested=%d routes=(%d,%d,%d)(%d,%d,%d)(%d,%d,%d) seq=",nested,ropts[i1].ev,ropts[i1].to,ropts[i1].guard,ropts[i2].ev,ropts[i2].to,ropts[i2].guard,ropts[i3].ev,ropts[i3].to,ropts[i3].guard); for(int o:sq) printf("%d",o); printf("\n  real: %s\n  ref : %s\n",tr_real.c_str(),tr_ref.c_str()); } kinds.insert(nested?"nested":"flat"); }
    } }
  printf("cases=%ld mismatches=%ld kinds:",cases,mism); for(auto&k:kinds) printf(" %s",k.c_str()); printf("\n");
}
