#include <tbox/http/server/request_parser.h>
#include <tbox/http/request.h>
#include <tbox/util/buffer.h>
#include <string>
#include <vector>
#include <cstdio>
#include <map>
using namespace tbox; using namespace tbox::http; using namespace tbox::http::server;
// feed segments the way server_imp does; return rendering of parsed requests or "FAIL"/"EXC"
static std::string feed(const std::vector<std::string>&segs){ util::Buffer buff; RequestParser p; std::string out; 
  try { for(auto&s:segs){ buff.append(s.data(),s.size());
    while(buff.readableSize()>0){ size_t r=p.parse(buff.readableBegin(),buff.readableSize()); if(r>buff.readableSize()) return "OVERCONSUME"; buff.hasRead(r);
      if(p.state()==RequestParser::State::kFinishedAll){ Request*q=p.getRequest(); out+="["+q->toString()+"]"; delete q; }
      else if(p.state()==RequestParser::State::kFail) return out+"FAIL"; else break; } } } catch(std::exception&e){ return std::string("EXC:")+e.what(); }
  return out+"|rest="+std::to_string(buff.readableSize()); }
int main(){
  std::vector<std::string> reqs;
  for(const char*m:{"GET","POST","DELETE"}) for(const char*t:{"/","/a/b?x=1&y=2","/p#f"}) for(const char*v:{"HTTP/1.0","HTTP/1.1"}) for(const char*hd:{"","Host: x\r\n","Connection: close\r\nX-A: b c\r\n"}) for(const char*body:{"","1","hello"}){
    std::string b=body; reqs.push_back(std::string(m)+" "+t+" "+v+"\r\n"+hd+"Content-Length: "+std::to_string(b.size())+"\r\n\r\n"+b); }
  long streams=0,splits=0,bad=0; std::map<std::string,long> kinds; std::map<std::string,std::string> ex;
  auto test=[&](const std::string&stream, size_t second_start){ streams++; auto inmeth=[&](size_t c){ size_t sp1=stream.find(' '); if(c<=sp1) return true; if(second_start){ size_t sp2=stream.find(' ',second_start); if(c>second_start&&c<=sp2) return true; } return false; }; std::string whole=feed({stream});
    for(size_t i=1;i<stream.size();i++) for(size_t j=i;j<stream.size();j+= (j==i?1:3)){ std::vector<std::string> segs; segs.push_back(stream.substr(0,i)); if(j>i){ segs.push_back(stream.substr(i,j-i)); } segs.push_back(stream.substr(j)); splits++; std::string r=feed(segs);
      if(r!=whole){ bad++; std::string k = r.find("FAIL")!=std::string::npos? ((inmeth(i)||inmeth(j))?"fail: a cut inside a method token":"fail: other") : r.substr(0,4)=="EXC:"?"exception":"different requests"; kinds[k]++; if(!ex.count(k)) ex[k]="cuts "+std::to_string(i)+","+std::to_string(j)+" of '"+stream.substr(0,40)+"...' -> "+r.substr(0,60); } } };
  for(size_t i=0;i<reqs.size();i+=7) test(reqs[i],0);
  for(size_t i=0;i<reqs.size();i+=31) for(size_t j=3;j<reqs.size();j+=41) test(reqs[i]+reqs[j],reqs[i].size());
  printf("streams=%ld splits=%ld differing=%ld\n",streams,splits,bad); for(auto&k:kinds) printf("  %-34s %ld  e.g. %s\n",k.first.c_str(),k.second,ex[k.first].c_str());
}
