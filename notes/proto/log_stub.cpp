extern "C" void LogPrintfFunc(const char*,const char*,const char*,int,int,int,const char*,...){}
