#include <tbox/util/async_pipe.h>
#include <thread>
#include <string>
#include <cstdio>
#include <cstdlib>
extern "C" { void sched_begin(const char*,const char*); void sched_end(); void sched_note(const char*); }
using namespace tbox::util;
int main(){
  int scen = atoi(getenv("SCEN")?getenv("SCEN"):"0");
  sched_begin(getenv("PREFIX"), getenv("TRACE"));
  std::string out; int in_cb=0; bool overlap=false;
  {
    AsyncPipe ap; AsyncPipe::Config cfg; cfg.buff_size=2; cfg.buff_min_num=1; cfg.buff_max_num=(scen==1?1:2); cfg.interval=10;
    ap.initialize(cfg);
    ap.setCallback([&](const void*p,size_t n){ if(in_cb++) overlap=true; out.append((const char*)p,n); in_cb--; });
    std::thread p1([&]{ ap.append("abc",3); ap.append("d",1); });
    std::thread p2([&]{ ap.append("XYZ",3); });
    p1.join(); p2.join();
    ap.cleanup();
  }
  sched_note(("out="+out).c_str());
  // oracle: out is an interleaving with "abc","d","XYZ" contiguous, abc before d
  bool ok = out.size()==7 && out.find("abc")!=std::string::npos && out.find("XYZ")!=std::string::npos && out.find("d")!=std::string::npos && out.find("abc")<out.find("d") && !overlap;
  if(!ok) sched_note("VIOLATION pipe-content");
  sched_end();
}
