#!/bin/bash
# run explorer with tsan binary; collect distinct TSan summaries
rm -f tsan_log.*; export TSAN_OPTIONS="halt_on_error=0 exitcode=0 log_path=/tmp/proto/tsan_log"
python3 explore.py $1 $2 $3 | head -8
cat tsan_log.* 2>/dev/null | grep "^SUMMARY" | sed 's/ (pid.*//' | sort | uniq -c
rm -f tsan_log.*
