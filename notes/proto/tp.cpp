#include <tbox/eventx/thread_pool.h>
#include <tbox/event/loop.h>
#include <mutex>
#include <vector>
#include <cstdio>
#include <cstdlib>
#include <string>
extern "C" { void sched_begin(const char*,const char*); void sched_end(); void sched_note(const char*); }
using namespace tbox;
struct FakeLoop : event::Loop {
  std::mutex m; std::vector<Func> q; WaterLine wl;
  void runLoop(Mode) override {} void exitLoop(const std::chrono::milliseconds&) override {}
  bool isInLoopThread() override { return true; } bool isRunning() const override { return true; }
  RunId runInLoop(Func &&f, const std::string&) override { std::lock_guard<std::mutex> g(m); q.push_back(std::move(f)); return q.size(); }
  RunId runInLoop(const Func &f, const std::string&) override { std::lock_guard<std::mutex> g(m); q.push_back(f); return q.size(); }
  RunId runNext(Func &&f, const std::string&w) override { return runInLoop(std::move(f),w);} RunId runNext(const Func &f, const std::string&w) override { return runInLoop(f,w);} 
  RunId run(Func &&f, const std::string&w) override { return runInLoop(std::move(f),w);} RunId run(const Func &f, const std::string&w) override { return runInLoop(f,w);} 
  bool cancel(RunId) override { return false; }
  event::FdEvent* newFdEvent(const std::string&) override { return nullptr; } event::TimerEvent* newTimerEvent(const std::string&) override { return nullptr; } event::SignalEvent* newSignalEvent(const std::string&) override { return nullptr; }
  event::Stat getStat() const override { return event::Stat(); } void resetStat() override {} WaterLine& water_line() override { return wl; } void cleanup() override {}
  void drain(){ std::vector<Func> t; { std::lock_guard<std::mutex> g(m); t.swap(q);} for(auto&f:t) f(); }
};
int main(){
  int scenario = atoi(getenv("SCEN")?getenv("SCEN"):"0");
  sched_begin(getenv("PREFIX"), getenv("TRACE"));
  FakeLoop loop; 
  int started[3]={0,0,0}, done[3]={0,0,0}, cb[3]={0,0,0};
  {
    eventx::ThreadPool tp(&loop);
    int mn = scenario==2?0:1;
    tp.initialize(mn,1);
    auto t0 = tp.execute([&]{ started[0]++; done[0]++; }, [&]{ cb[0]++; });
    if (scenario>=1) {
      auto st = tp.getTaskStatus(t0);
      char b[128]; snprintf(b,sizeof b,"status=%d started=%d done=%d", (int)st, started[0], done[0]); sched_note(b);
      if (st==eventx::ThreadPool::TaskStatus::kNotFound && started[0]==0) sched_note("VIOLATION status-notfound-but-will-run");
    }
    tp.cleanup();
  }
  loop.drain();
  char b[128]; snprintf(b,sizeof b,"final started=%d done=%d cb=%d",started[0],done[0],cb[0]); sched_note(b);
  if (started[0]>1 || (done[0]==1 && cb[0]!=1)) sched_note("VIOLATION exactly-once");
  sched_end();
}
