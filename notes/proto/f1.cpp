// direct confirmations for C12/C14/C19 candidates (ASan build, each case in a forked child)
#include <tbox/util/base64.h>
#include <tbox/util/scalable_integer.h>
#include <tbox/http/server/request_parser.h>
#include <tbox/jsonrpc/protos/header_stream_proto.h>
#include <tbox/jsonrpc/protos/raw_stream_proto.h>
#include <tbox/base/json.hpp>
#include <unistd.h>
#include <fcntl.h>
#include <sys/wait.h>
#include <cstdio>
#include <cstring>
#include <cstdlib>
#include <string>
#include <vector>
#include <functional>
using namespace tbox;
static void child(const char *name, std::function<void()> f){
  fflush(stdout); pid_t p=fork(); if(!p){ int dn=open("/dev/null",1); dup2(dn,2); try { f(); fflush(stdout); } catch (const std::exception &e) { printf("  %-44s -> EXCEPTION %s\n",name,e.what()); fflush(stdout); _exit(7);} _exit(0);} 
  int st; waitpid(p,&st,0); if(WIFSIGNALED(st)) printf("  %-44s -> SIGNAL %d\n",name,WTERMSIG(st)); else if(WEXITSTATUS(st)==7) ; else if(WEXITSTATUS(st)) printf("  %-44s -> exit %d (sanitizer/abort)\n",name,WEXITSTATUS(st)); else printf("  %-44s -> ok\n",name);
}
#include <fcntl.h>
int main(){
  child("base64 decode QQ== into exact 1-byte heap buf", []{ char *o=(char*)malloc(1); size_t n=util::base64::Decode("QQ==",4,o,1); printf("    n=%zu\n",n); free(o); });
  child("base64 decode with byte 0x80", []{ char in[4]={'Q','Q',(char)0x80,'='}; char o[8]; util::base64::Decode(in,4,o,8); });
  child("scalable parse 11 continuation bytes", []{ std::vector<uint8_t> b(10,0x80); b.push_back(0x01); uint64_t v; uint8_t *h=(uint8_t*)malloc(b.size()); memcpy(h,b.data(),b.size()); size_t n=util::ParseScalableInteger(h,b.size(),v); printf("    n=%zu\n",n); free(h); });
  child("http Content-Length: abc", []{ http::server::RequestParser p; std::string s="GET / HTTP/1.1\r\nContent-Length: abc\r\n\r\n"; p.parse(s.data(),s.size()); });
  child("http split inside method 'GE'+'T / ...'", []{ http::server::RequestParser p; std::string s="GET / HTTP/1.1\r\nContent-Length: 0\r\n\r\n"; size_t n=p.parse(s.data(),2); printf("    first call consumed=%zu state=%d (4=kFail)\n",n,(int)p.state()); });
  child("jsonrpc header len=0xFFFFFFFF", []{ jsonrpc::HeaderStreamProto pr(0x3e5a); uint8_t d[16]={0x3e,0x5a,0xff,0xff,0xff,0xff,'{','}',0,0}; long r=pr.onRecvData(d,10); printf("    ret=%ld\n",r); });
  return 0;
}
