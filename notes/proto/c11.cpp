#include <tbox/main/module.h>
#include <tbox/base/json.hpp>
#include <vector>
#include <string>
#include <cstdio>
#include <functional>
using namespace tbox; using namespace tbox::main;
static std::vector<std::string> LOG;
struct Probe : Module {
  int id; int fail; // 0 ok, 1 init fails, 2 start fails
  Probe(int i,int f,const std::string&n,Context&c):Module(n,c),id(i),fail(f){}
  ~Probe(){ }
  bool onInit(const Json&) override { LOG.push_back("I"+std::to_string(id)+(fail==1?"x":"")); return fail!=1; }
  bool onStart() override { LOG.push_back("S"+std::to_string(id)+(fail==2?"x":"")); return fail!=2; }
  void onStop() override { LOG.push_back("T"+std::to_string(id)); }
  void onCleanup() override { LOG.push_back("C"+std::to_string(id)); }
};
// shapes for 3 nodes: root(0) with children 1,2 ; or chain 0-1-2
int main(){
  Context *ctx=nullptr; int bad=0,total=0;
  for (int shape=0;shape<2;shape++) for(int req=0;req<4;req++) for(int f0=0;f0<3;f0++) for(int f1=0;f1<3;f1++) for(int f2=0;f2<3;f2++) {
    LOG.clear();
    {
      Probe *r=new Probe(0,f0,"",*ctx), *a=new Probe(1,f1,"",*ctx), *b=new Probe(2,f2,"",*ctx);
      r->add(a, req&1); if(shape==0) r->add(b,(req>>1)&1); else a->add(b,(req>>1)&1);
      Json js; r->fillDefaultConfig(js);
      if (r->initialize(js)) { r->start(); }
      r->cleanup();
      delete r;
    }
    // oracle: balance
    int I[3]={0},C[3]={0},S[3]={0},T[3]={0};
    for(auto&e:LOG){ int id=e[1]-'0'; bool x=e.size()>2; if(e[0]=='I'&&!x)I[id]++; if(e[0]=='C')C[id]++; if(e[0]=='S'&&!x)S[id]++; if(e[0]=='T')T[id]++; }
    bool ok=true; for(int i=0;i<3;i++) if(I[i]!=C[i]||S[i]!=T[i]) ok=false;
    total++;
    if(!ok){ bad++; if(bad<=6){ printf("UNBALANCED shape=%d req=%d fails=%d%d%d :", shape,req,f0,f1,f2); for(auto&e:LOG) printf(" %s",e.c_str()); printf("\n"); } }
  }
  printf("total=%d unbalanced=%d\n",total,bad);
}
