#include "hist.h"
#include <tbox/event/loop.h>
#include <tbox/terminal/terminal.h>
#include <tbox/terminal/connection.h>
#include <tbox/terminal/session.h>
#include "/repo/modules/terminal/impl/terminal.h"
#include "/repo/modules/terminal/impl/session_context.h"
#include <deque>
using namespace tbox; using namespace tbox::terminal;
struct Conn : Connection { std::string out; bool send(const SessionToken&,char c) override {out.push_back(c);return true;} bool send(const SessionToken&,const std::string&s) override {out+=s;return true;} bool endSession(const SessionToken&) override {return true;} bool isValid(const SessionToken&) const override {return true;} };
// keys: 0 'a', 1 'b', 2 BS, 3 DEL, 4 LEFT, 5 RIGHT, 6 HOME, 7 END, 8 UP, 9 DOWN, 10 ENTER
static const char* ENC[]={"a","b","\x7f","\033[3~","\033[D","\033[C","\033[1~","\033[4~","\033[A","\033[B","\r\n"};
struct Ref { std::string line; size_t cur=0; std::deque<std::string> hist; size_t hidx=0; std::vector<std::string> executed;
  void key(int k){ switch(k){ case 0: case 1: line.insert(cur,1,k?'b':'a'); cur++; break; case 2: if(cur>0){ line.erase(cur-1,1); cur--; } break; case 3: if(cur<line.size()) line.erase(cur,1); break;
    case 4: if(cur>0) cur--; break; case 5: if(cur<line.size()) cur++; break; case 6: cur=0; break; case 7: cur=line.size(); break;
    case 8: if(hidx<hist.size()){ hidx++; line=hist[hist.size()-hidx]; cur=line.size(); } break;
    case 9: if(hidx>0){ hidx--; if(hidx>0){ line=hist[hist.size()-hidx]; cur=line.size(); } else { line.clear(); cur=0; } } break;
    case 10: executed.push_back(line); if(!line.empty()){ hist.push_back(line); if(hist.size()>20) hist.pop_front(); } line.clear(); cur=0; hidx=0; break; } } };
int main(int argc,char**argv){ int depth=argc>1?atoi(argv[1]):6; int echo=argc>2?atoi(argv[2]):1;
  HistExplorer<int> ex; ex.show=[](const int&k){ return std::to_string(k); };
  ex.menu=[&](const std::vector<int>&){ std::vector<int> m; for(int k=0;k<=10;k++) m.push_back(k); return m; };
  ex.run=[&](const std::vector<int>&h,std::string&viol){
    auto loop=event::Loop::New(); std::string canon; {
    Terminal t(loop); Conn c; std::vector<std::string> got;
    // user commands: every line typed is a command name; mount function nodes for all short names? simpler: capture via 'cmdline' -> use a catch-all: register nodes "a","b","aa",... not feasible; instead read SessionContext directly at Enter via log? use private access:
    auto st=t.newSession(&c); t.setOptions(st, echo?TerminalInteract::kEnableEcho:0); t.onBegin(st); size_t prompts_before=0;
    Ref ref; 
    for(int k:h){ c.out.clear(); 
      // capture line as the implementation sees it just before Enter
      std::string impl_line; auto *impl=t.impl_; auto *s=impl->sessions_.at(st); if(k==10) impl_line=s->curr_input;
      t.onRecvString(st, ENC[k]); ref.key(k);
      if(k==10){ if(impl_line!=ref.executed.back()){ viol="line at Enter differs: impl='"+impl_line+"' ref='"+ref.executed.back()+"'"; break; }
        size_t n=0,pos=0; while((pos=c.out.find("# ",pos))!=std::string::npos){n++;pos+=2;} if(n!=1){ viol="prompts per Enter = "+std::to_string(n); break; } }
      s=impl->sessions_.at(st); if(s->curr_input!=ref.line){ viol="edit line differs: impl='"+s->curr_input+"' ref='"+ref.line+"'"; break; }
      if(s->cursor!=ref.cur){ viol="cursor differs impl="+std::to_string(s->cursor)+" ref="+std::to_string(ref.cur); break; }
      if(s->history.size()!=ref.hist.size()){ viol="history size differs"; break; } for(size_t i=0;i<ref.hist.size();i++) if(s->history[i]!=ref.hist[i]){ viol="history content differs"; break; }
    }
    auto *s=t.impl_->sessions_.at(st); canon=s->curr_input+"|"+std::to_string(s->cursor)+"|"+std::to_string(s->history_index)+"|"; for(auto&x:s->history) canon+=x+","; (void)prompts_before;
    } delete loop; return canon; };
  printf("depth=%d echo=%d\n",depth,echo); ex.explore(depth,6); }
