// Throwaway prototype of engine S: cooperative scheduler via pthread interposition.
#include <pthread.h>
#include <unistd.h>
#include <sys/syscall.h>
#include <linux/futex.h>
#include <dlfcn.h>
#include <errno.h>
#include <stdio.h>
#include <stdlib.h>
#include <string.h>
#include <time.h>
#include <vector>
#include <sys/epoll.h>
#include <set>

extern "C" { void __tsan_acquire(void*) __attribute__((weak)); void __tsan_release(void*) __attribute__((weak));
 int __interceptor_pthread_create(pthread_t*,const pthread_attr_t*,void*(*)(void*),void*) __attribute__((weak)); int __interceptor_pthread_join(pthread_t,void**) __attribute__((weak)); }
#define TS_ACQ(p) do{ if(__tsan_acquire) __tsan_acquire(p);}while(0)
#define TS_REL(p) do{ if(__tsan_release) __tsan_release(p);}while(0)
namespace {
enum St { RUN, B_MUTEX, B_COND, B_JOIN, FIN, B_EPOLL };
struct Th { int st = RUN; void *obj = nullptr; int fut = 0; pthread_t pt; bool timed=false; bool timedout=false; void *relock=nullptr; };
const int MAXT = 16;
Th th[MAXT]; int nth = 0; int cur = 0; bool active = false;
struct Mu { pthread_mutex_t *m; int owner; int cnt; };
std::vector<Mu> mus;
struct Wt { pthread_cond_t *c; int t; };
std::vector<Wt> waiters;
std::vector<int> prefix; size_t step = 0;
FILE *trace = nullptr;
int max_steps = 5000;
__thread int self_id = -1;

void fwait(int *f){ while (__atomic_load_n(f,__ATOMIC_ACQUIRE)==0) syscall(SYS_futex,f,FUTEX_WAIT,0,0,0,0); __atomic_store_n(f,0,__ATOMIC_RELEASE);} 
void fwake(int *f){ __atomic_store_n(f,1,__ATOMIC_RELEASE); syscall(SYS_futex,f,FUTEX_WAKE,1,0,0,0);} 

Mu* mu(pthread_mutex_t *m){ for (auto &x: mus) if (x.m==m) return &x; mus.push_back({m,-1,0}); return &mus.back(); }
bool enabled(int t){
  Th &x = th[t];
  switch (x.st) {
    case RUN: return true;
    case B_MUTEX: { Mu*u=mu((pthread_mutex_t*)x.obj); return u->owner==-1 || u->owner==t; }
    case B_COND: return false;   // (timeout handled as separate pseudo choice below)
    case B_JOIN: return th[(long)x.obj].st==FIN;
    case B_EPOLL: { struct epoll_event ev[4]; return syscall(SYS_epoll_wait,(int)(long)x.obj,ev,4,0)>0; }
    default: return false;
  }
}
void (*on_deadlock)() = nullptr;
void die(const char *msg){ if(!strcmp(msg,"DEADLOCK") && on_deadlock) on_deadlock(); if(trace){fprintf(trace,"END %s\n",msg); fflush(trace);} _exit(strcmp(msg,"ok")==0?0:42); }

// pick next thread; called by the running thread 'cur' which is at a scheduling point
void schedule(){
  // enabled set; canonical order: cur first if enabled, then ascending. timed cond waiters offer 'timeout' choice encoded as 100+t
  int opts[2*MAXT]; int n=0;
  if (enabled(cur)) opts[n++]=cur;
  for (int t=0;t<nth;t++) if (t!=cur && enabled(t)) opts[n++]=t;
  for (int t=0;t<nth;t++) if (th[t].st==B_COND && th[t].timed) opts[n++]=100+t;
  if (n==0){ bool all=true; for(int t=0;t<nth;t++) if(th[t].st!=FIN) all=false; die(all?"ok":"DEADLOCK"); }
  if ((int)step>=max_steps) die("HORIZON");
  int pick = 0;
  if (step < prefix.size()) { pick=-1; for(int i=0;i<n;i++) if(opts[i]==prefix[step]) pick=i; if(pick<0) die("DIVERGE"); }
  else if (opts[0]>=100) { /* default: never choose timeout unless nothing else */ }
  fprintf(trace,"P %zu cur=%d curen=%d pick=%d opts=",step,cur,(int)enabled(cur),opts[pick]); for(int i=0;i<n;i++) fprintf(trace,"%d,",opts[i]); fprintf(trace,"\n");
  step++;
  int c = opts[pick];
  if (c>=100){ int t=c-100; th[t].timedout=true; th[t].st=B_MUTEX; th[t].obj=th[t].relock; for(size_t i=0;i<waiters.size();i++) if(waiters[i].t==t){waiters.erase(waiters.begin()+i);break;}
    // after converting, re-run scheduling (counts as a step already)
    int prev=cur; (void)prev; schedule(); return; }
  int prev = cur; cur = c;
  if (c != prev) { fwake(&th[c].fut); if (th[prev].st!=FIN) fwait(&th[prev].fut); else { /* finished thread just returns and exits */ } }
}
void point(){ if(!active) return; schedule(); }

void do_lock(pthread_mutex_t *m){
  int me=self_id; th[me].st=B_MUTEX; th[me].obj=m; point();
  // we were chosen => mutex is free or ours
  Mu*u=mu(m); u->owner=me; u->cnt++; th[me].st=RUN; TS_ACQ(m);
}
void do_unlock(pthread_mutex_t *m){ TS_REL(m); Mu*u=mu(m); if(u->owner!=self_id){ die("UNLOCK_NOT_OWNER"); } if(--u->cnt==0) u->owner=-1; point(); }

struct Start { void*(*f)(void*); void*a; int id; };
void* tramp(void *p){ Start s=*(Start*)p; delete (Start*)p; self_id=s.id; fwait(&th[s.id].fut); void*r=s.f(s.a); th[s.id].st=FIN; schedule(); return r; }
}

static std::set<int> reg_fds;
extern "C" {
void sched_register_fd(int fd){ reg_fds.insert(fd); }
void sched_on_deadlock(void(*f)()){ on_deadlock=f; }
int epoll_wait(int epfd, struct epoll_event *ev, int maxev, int timeout){
  if(!active) return syscall(SYS_epoll_wait,epfd,ev,maxev,timeout);
  int me=self_id;
  if (timeout==0) { point(); return syscall(SYS_epoll_wait,epfd,ev,maxev,0); }
  th[me].st=B_EPOLL; th[me].obj=(void*)(long)epfd; point(); th[me].st=RUN;
  return syscall(SYS_epoll_wait,epfd,ev,maxev,0);
}
ssize_t write(int fd,const void*b,size_t n){ if(active && fd>2) point(); return syscall(SYS_write,fd,b,n); }
ssize_t read(int fd,void*b,size_t n){ if(active && fd>2) point(); return syscall(SYS_read,fd,b,n); }
void sched_begin(const char *prefix_str, const char *trace_path){
  trace=fopen(trace_path,"w"); if(prefix_str) { char *s=strdup(prefix_str); for(char*t=strtok(s,",");t;t=strtok(0,",")) prefix.push_back(atoi(t)); }
  nth=1; cur=0; self_id=0; th[0].st=RUN; active=true; }
void sched_end(){ th[0].st=FIN; active=false; die("ok"); }
void sched_note(const char *s){ if(trace){fprintf(trace,"N %s\n",s);} }

int pthread_mutex_lock(pthread_mutex_t*m){ if(!active){ static auto r=(int(*)(pthread_mutex_t*))dlsym(RTLD_NEXT,"pthread_mutex_lock"); return r(m);} do_lock(m); return 0; }
int pthread_mutex_trylock(pthread_mutex_t*m){ if(!active){ static auto r=(int(*)(pthread_mutex_t*))dlsym(RTLD_NEXT,"pthread_mutex_trylock"); return r(m);} point(); Mu*u=mu(m); if(u->owner==-1||u->owner==self_id){u->owner=self_id;u->cnt++;TS_ACQ(m);return 0;} return EBUSY; }
int pthread_mutex_unlock(pthread_mutex_t*m){ if(!active){ static auto r=(int(*)(pthread_mutex_t*))dlsym(RTLD_NEXT,"pthread_mutex_unlock"); return r(m);} do_unlock(m); return 0; }
static int cwait(pthread_cond_t*c,pthread_mutex_t*m,bool timed){
  int me=self_id;
  point();                       // step 1: before registering as waiter
  TS_REL(m); Mu*u=mu(m); int saved=u->cnt; u->cnt=0; u->owner=-1;   // release
  waiters.push_back({c,me}); th[me].st=B_COND; th[me].obj=c; th[me].timed=timed; th[me].timedout=false; th[me].relock=m;
  point();                       // blocks until signalled (state -> B_MUTEX) and mutex available
  u=mu(m); u->owner=me; u->cnt=saved; th[me].st=RUN; th[me].timed=false; TS_ACQ(m);
  return th[me].timedout?ETIMEDOUT:0;
}
int pthread_cond_wait(pthread_cond_t*c,pthread_mutex_t*m){ if(!active){ static auto r=(int(*)(pthread_cond_t*,pthread_mutex_t*))dlsym(RTLD_NEXT,"pthread_cond_wait"); return r(c,m);} return cwait(c,m,false); }
int pthread_cond_clockwait(pthread_cond_t*c,pthread_mutex_t*m,clockid_t k,const struct timespec*t){ if(!active){ static auto r=(int(*)(pthread_cond_t*,pthread_mutex_t*,clockid_t,const struct timespec*))dlsym(RTLD_NEXT,"pthread_cond_clockwait"); return r(c,m,k,t);} return cwait(c,m,true); }
int pthread_cond_timedwait(pthread_cond_t*c,pthread_mutex_t*m,const struct timespec*t){ if(!active){ static auto r=(int(*)(pthread_cond_t*,pthread_mutex_t*,const struct timespec*))dlsym(RTLD_NEXT,"pthread_cond_timedwait"); return r(c,m,t);} return cwait(c,m,true); }
int pthread_cond_signal(pthread_cond_t*c){ if(!active){ static auto r=(int(*)(pthread_cond_t*))dlsym(RTLD_NEXT,"pthread_cond_signal"); return r(c);} 
  for(size_t i=0;i<waiters.size();i++) if(waiters[i].c==c){ int t=waiters[i].t; waiters.erase(waiters.begin()+i); th[t].st=B_MUTEX; th[t].obj=th[t].relock; break; } // prototype: FIFO waiter (real engine: choice point)
  point(); return 0; }
int pthread_cond_broadcast(pthread_cond_t*c){ if(!active){ static auto r=(int(*)(pthread_cond_t*))dlsym(RTLD_NEXT,"pthread_cond_broadcast"); return r(c);} 
  for(size_t i=0;i<waiters.size();) if(waiters[i].c==c){ int t=waiters[i].t; waiters.erase(waiters.begin()+i); th[t].st=B_MUTEX; th[t].obj=th[t].relock; } else i++;
  point(); return 0; }
int pthread_create(pthread_t*t,const pthread_attr_t*a,void*(*f)(void*),void*arg){ auto r=(int(*)(pthread_t*,const pthread_attr_t*,void*(*)(void*),void*))dlsym(RTLD_NEXT,"pthread_create"); if(!active) return r(t,a,f,arg);
  int id=nth++; th[id].st=RUN; th[id].fut=0; if(__interceptor_pthread_create) r=__interceptor_pthread_create; int rc=r(t,a,tramp,new Start{f,arg,id}); th[id].pt=*t; point(); return rc; }
int pthread_join(pthread_t t,void**ret){ auto r=(int(*)(pthread_t,void**))dlsym(RTLD_NEXT,"pthread_join"); if(!active) return r(t,ret);
  int id=-1; for(int i=0;i<nth;i++) if(pthread_equal(th[i].pt,t)) id=i; if(id<0) die("JOIN_UNKNOWN");
  int me=self_id; th[me].st=B_JOIN; th[me].obj=(void*)(long)id; point(); th[me].st=RUN; if(__interceptor_pthread_join) r=__interceptor_pthread_join; return r(t,ret); }
}
