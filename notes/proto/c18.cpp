#include <tbox/event/loop.h>
#include <tbox/coroutine/scheduler.h>
#include <tbox/coroutine/channel.hpp>
#include <tbox/coroutine/mutex.hpp>
#include <tbox/coroutine/semaphore.hpp>
#include <vector>
#include <string>
#include <cstdio>
#include <map>
using namespace tbox; using namespace tbox::coroutine;
enum Step { SEND, RECV, LOCK, UNLOCK, ACQ, REL, YIELD, NSTEP };
static const char* SN[]={"send","recv","lock","unlock","acq","rel","yield"};
int main(int argc,char**argv){
  int L = argc>1?atoi(argv[1]):2;   // steps per routine
  const int NR=3; long total=0,bad=0; std::map<std::string,long> kinds; std::map<std::string,std::string> example;
  std::vector<std::vector<int>> scripts; { std::vector<int> cur; std::function<void(int)> gen=[&](int d){ if(d==L){scripts.push_back(cur);return;} for(int s=0;s<NSTEP;s++){cur.push_back(s);gen(d+1);cur.pop_back();} }; gen(0);} 
  size_t NS=scripts.size();
  for(size_t a=0;a<NS;a++) for(size_t b=0;b<NS;b++) for(size_t c=0;c<NS;c++){
    const std::vector<int>* sc[NR]={&scripts[a],&scripts[b],&scripts[c]};
    auto loop=event::Loop::New("epoll"); Scheduler sch(loop); Channel<int> ch(sch); Mutex mu(sch); Semaphore sem(sch,0);
    int blocked_on[NR]; for(int i=0;i<NR;i++) blocked_on[i]=-1; bool done[NR]={false,false,false}; int sent=0; std::vector<int> recvd; int holders=0; bool mutex_violation=false; int acq=0,rel=0;
    for(int r=0;r<NR;r++) sch.create([&,r](Scheduler&s){ bool holding=false;
        for(int st:*sc[r]){ switch(st){
          case SEND: ch<<(++sent); break;
          case RECV: { int v; blocked_on[r]=RECV; bool ok=(ch>>v); blocked_on[r]=-1; if(!ok){ goto out;} recvd.push_back(v);} break;
          case LOCK: { blocked_on[r]=LOCK; bool ok=mu.lock(); blocked_on[r]=-1; if(!ok) goto out; if(!holding){ holding=true; if(++holders>1) mutex_violation=true; } } break;
          case UNLOCK: if(holding){ holding=false; holders--; } mu.unlock(); break;
          case ACQ: { blocked_on[r]=ACQ; bool ok=sem.acquire(); blocked_on[r]=-1; if(!ok) goto out; acq++; } break;
          case REL: sem.release(); rel++; break;
          case YIELD: s.yield(); if(s.isCanceled()) goto out; break; } }
        out: if(holding){ holders--; mu.unlock(); } done[r]=true; }, true, "r");
    for(int i=0;i<40;i++){ loop->runNext([]{}); loop->runLoop(event::Loop::Mode::kOnce); }
    // quiescence oracle
    std::string v;
    for(int r=0;r<NR;r++) if(!done[r]){ if(blocked_on[r]==RECV && !ch.queue_.empty()) v="suspended on non-empty channel"; if(blocked_on[r]==LOCK && mu.hold_token_.isNull()) v="suspended on free mutex"; if(blocked_on[r]==ACQ && sem.count_>0) v="suspended on positive semaphore"; }
    for(size_t i=0;i<recvd.size();i++) if(recvd[i]!=(int)i+1) v="channel order/dup";
    if(mutex_violation) v="two mutex holders"; if(acq>rel) v="acquisitions exceed releases";
    total++; if(!v.empty()){ bad++; kinds[v]++; if(!example.count(v)){ std::string e; for(int r=0;r<NR;r++){ e+="["; for(int st:*sc[r]) e+=std::string(SN[st])+" "; e+="] "; } example[v]=e; } }
    sch.cleanup(); for(int r=0;r<NR;r++) if(!done[r]){ kinds["NOT TERMINATED AFTER CLEANUP"]++; }
    delete loop;
  }
  printf("L=%d programs=%ld violating=%ld\n",L,total,bad); for(auto&k:kinds) printf("  %-36s %ld   e.g. %s\n",k.first.c_str(),k.second,example[k.first].c_str());
}
