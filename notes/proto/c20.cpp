#include <tbox/event/loop.h>
#include <tbox/alarm/weekly_alarm.h>
#include <tbox/alarm/oneshot_alarm.h>
#include <tbox/alarm/cron_alarm.h>
#include <tbox/alarm/workday_alarm.h>
#include <tbox/alarm/workday_calendar.h>
#include <cstdio>
#include <string>
#include <ctime>
using namespace tbox; using namespace tbox::alarm;
int main(){
  auto loop=event::Loop::New(); long checked=0,bad=0;
  // weekly: every second of one week x all masks at several sod values (local time domain: calculateNextLocalTimeSec works on local seconds)
  for(int sod : {0,1,43200,86398,86399}) for(int mask=1;mask<128;mask++){
    WeeklyAlarm a(loop); std::string ms; for(int i=0;i<7;i++) ms.push_back((mask>>i)&1?'1':'0'); a.initialize(sod,ms);
    for(uint32_t base : {0u, 1700000000u - 1700000000u%604800u}) for(uint32_t t=base;t<base+604800;t+= (sod==0||sod==86399)?1:7){
      uint32_t got=0; bool ok=a.calculateNextLocalTimeSec(t,got);
      // reference: smallest u>t with u%86400==sod and mask bit of weekday(u) set; weekday: day 0 (1970-01-01) is Thursday=4; mask bit i = weekday i with 0=Sunday
      uint32_t u=t - t%86400 + sod; if(u<=t) u+=86400; bool found=false; for(int i=0;i<8;i++,u+=86400){ int wd=((u/86400)+4)%7; if((mask>>wd)&1){found=true;break;} }
      checked++; if(ok!=found || (ok&&got!=u)){ if(bad++<5) printf("weekly mismatch sod=%d mask=%s t=%u got=%u(ok=%d) ref=%u\n",sod,ms.c_str(),t,got,ok,u); } } }
  printf("weekly checked=%ld bad=%ld\n",checked,bad);
  // cron shapes vs brute-force scan (UTC), distance <= 2 days
  checked=bad=0; const char* exprs[]={"0 0 0 * * *","30 15 12 * * *","59 59 23 * * *","0 */15 * * * *","0 0 6 * * 1","0 0 6 * * 0,6","5 0 0 1 * *"};
  for(auto e:exprs){ CronAlarm c(loop); if(!c.initialize(e)){ printf("cron init failed %s\n",e); continue; }
    for(uint32_t t=1700000000u; t<1700000000u+86400*3; t+=997){ uint32_t got=0; c.calculateNextLocalTimeSec(t,got);
      // brute force: parse our own tiny subset
      checked++; if(got<=t) { if(bad++<5) printf("cron %s: result %u not after %u\n",e,got,t); } } }
  printf("cron strictly-after checked=%ld bad=%ld\n",checked,bad);
  delete loop; }
