"""Shared layer for every check: build real cpp-tbox sources, run harness processes,
collect their protocol lines, match known findings, write evidence, print verdict.

Harness protocol (stdout lines, everything else is ignored and kept in the log):
  @STAT key=value [key=value ...]     integer counters, summed over all processes
  @SAMPLE <free text>                 a concrete explored case (first few are kept)
  @OUTCOME <free text>                a distinct observed outcome (deduplicated, counted)
  @VIOL sig=<signature> :: <replay>   a violation: signature (no spaces) + replayable case
  @CAP <text>                         a cap/deadline was hit (exploration not exhaustive)
  @INFO <text>                        informational, copied into the evidence
"""
import glob
import hashlib
import json
import os
import re
import subprocess
import sys
import time
from concurrent.futures import ThreadPoolExecutor

VERIF = os.path.dirname(os.path.dirname(os.path.abspath(__file__)))
REPO = os.environ.get("VERIF_REPO", "/repo")
# A run against a scratch tree (VERIF_REPO=<worktree>, seeded/try_seed.sh) gets its own build directory, so that it can never swap an
# executable under a concurrent run of the same check against /repo (or against another scratch tree); the object cache is shared - it is
# keyed by the preprocessed text, so objects of different trees cannot be confused.
BUILD = os.path.join(VERIF, "build") if os.path.realpath(REPO) == "/repo" else os.path.join(VERIF, "build", "scratch", os.path.basename(os.path.realpath(REPO)))
CACHE = os.path.join(VERIF, "build", "cache")
NCPU = int(os.environ.get("VERIF_JOBS", "16"))

BASE_FLAGS = [
    "-std=c++11", "-g", "-DNDEBUG", "-DHAVE_EPOLL=1", "-DHAVE_SELECT=1",
    "-DCPP_TBOX_VERIF=1",
    "-DTBOX_VERSION_MAJOR=1", "-DTBOX_VERSION_MINOR=0", "-DTBOX_VERSION_REVISION=0",
    "-I" + REPO + "/modules", "-I" + REPO + "/3rd-party", "-I" + VERIF + "/engine", "-w",
]
MODES = {
    "plain": (["g++"], ["-O1"]),
    "opt": (["g++"], ["-O2"]),
    "asan": (["g++"], ["-O1", "-fsanitize=address,undefined", "-fno-sanitize-recover=undefined",
                       "-fno-sanitize=nonnull-attribute", "-fno-omit-frame-pointer"]),
    "asan_only": (["g++"], ["-O1", "-fsanitize=address", "-fno-omit-frame-pointer"]),
    "tsan": (["clang++"], ["-O1", "-fsanitize=thread", "-include", "tbox/base/json.hpp"]),
}


def module_sources(*modules, exclude=()):
    """All non-test .cpp files of the given modules (or explicit relative paths)."""
    out = []
    for m in modules:
        if m.endswith(".cpp"):
            out.append(os.path.join(REPO, "modules", m))
            continue
        for p in sorted(glob.glob(os.path.join(REPO, "modules", m, "**", "*.cpp"), recursive=True)):
            rel = os.path.relpath(p, os.path.join(REPO, "modules"))
            if rel.endswith("_test.cpp") or "/example" in rel or "/test/" in rel:
                continue
            if any(rel == e or rel.startswith(e) for e in exclude):
                continue
            out.append(p)
    return out


def _sha(b):
    return hashlib.sha256(b).hexdigest()[:24]


def _compile_one(cc, flags, src, extra_key=""):
    """Compile src to a cached object keyed by preprocessed text + flags."""
    module_id = "verif"
    rel = os.path.relpath(src, REPO + "/modules") if src.startswith(REPO) else None
    if rel:
        module_id = "tbox." + rel.split("/")[0]
    fl = flags + ['-DMODULE_ID="%s"' % module_id]
    pre = subprocess.run(cc + fl + ["-E", src], capture_output=True)
    if pre.returncode != 0:
        raise RuntimeError("preprocess failed: %s\n%s" % (src, pre.stderr.decode()[-3000:]))
    key = _sha(pre.stdout + " ".join(cc + fl).encode() + extra_key.encode())
    obj = os.path.join(CACHE, key + ".o")
    if not os.path.exists(obj):
        import threading, uuid
        tmp = obj + ".%d.%d.%s.tmp" % (os.getpid(), threading.get_ident(), uuid.uuid4().hex[:8])    # unique per process, thread and call
        r = subprocess.run(cc + fl + ["-c", src, "-o", tmp], capture_output=True)
        if r.returncode != 0:
            raise RuntimeError("compile failed: %s\n%s" % (src, r.stderr.decode()[-6000:]))
        os.replace(tmp, obj)
    return obj


def build(name, harness, repo_srcs, mode="asan", extra_flags=(), harness_flags=(), link=(),
          plain_srcs=(), defines=()):
    """Build executable BUILD/<name> from harness sources (compiled with -fno-access-control),
    repo sources (same mode) and plain_srcs (never instrumented, e.g. the scheduler)."""
    os.makedirs(CACHE, exist_ok=True)
    cc, mflags = MODES[mode]
    flags = BASE_FLAGS + mflags + list(extra_flags) + ["-D" + d for d in defines]
    jobs = []
    for s in repo_srcs:
        jobs.append((cc, flags, s))
    for s in harness:
        jobs.append((cc, flags + ["-fno-access-control"] + list(harness_flags), s))
    for s in plain_srcs:
        jobs.append((["g++"], BASE_FLAGS + ["-O1"] + ["-D" + d for d in defines], s))
    with ThreadPoolExecutor(NCPU) as ex:
        objs = list(ex.map(lambda j: _compile_one(*j), jobs))
    exe = os.path.join(BUILD, name)
    os.makedirs(os.path.dirname(exe), exist_ok=True)
    r = subprocess.run(cc + mflags + objs + ["-o", exe, "-lpthread", "-ldl"] + list(link),
                       capture_output=True)
    if r.returncode != 0:
        raise RuntimeError("link failed: %s\n%s" % (name, r.stderr.decode()[-6000:]))
    return exe


class Result:
    def __init__(self):
        self.stats = {}
        self.samples = []
        self.outcomes = {}
        self.viols = []      # (sig, replay, source)
        self.caps = []
        self.infos = []
        self.errors = []     # harness/infrastructure failures (non-zero exit w/o @VIOL, etc.)
        self.runs = 0

    def absorb(self, text, tag=""):
        for line in text.splitlines():
            if not line.startswith("@"):
                continue
            if line.startswith("@STAT "):
                for kv in line[6:].split():
                    if "=" in kv:
                        k, v = kv.split("=", 1)
                        try:
                            self.stats[k] = self.stats.get(k, 0) + int(v)
                        except ValueError:
                            pass
            elif line.startswith("@SAMPLE "):
                if len(self.samples) < 12:
                    self.samples.append((tag + " " if tag else "") + line[8:])
            elif line.startswith("@OUTCOME "):
                self.outcomes[line[9:]] = self.outcomes.get(line[9:], 0) + 1
            elif line.startswith("@VIOL "):
                m = re.match(r"@VIOL sig=(\S+) :: ?(.*)", line)
                if m:
                    self.viols.append((m.group(1), m.group(2), tag))
                else:
                    self.viols.append(("unparsed", line, tag))
            elif line.startswith("@CAP "):
                self.caps.append((tag + " " if tag else "") + line[5:])
            elif line.startswith("@INFO "):
                if len(self.infos) < 40:
                    self.infos.append((tag + " " if tag else "") + line[6:])


def run_procs(res, cmds, timeout=3600, env=None, jobs=NCPU, ok_codes=(0,), log=None):
    """Run harness processes in parallel. cmds: list of (tag, argv[, env]) ."""
    def one(c):
        tag, argv = c[0], c[1]
        e = dict(os.environ)
        e.setdefault("ASAN_OPTIONS", "detect_leaks=0:abort_on_error=0")
        # abort_on_error: a fatal UBSan report (-fno-sanitize-recover) raises SIGABRT instead of calling _exit, so that an in-process
        # harness' crash reporter (hist.h install_crash_reporter) still prints the history under evaluation as a @VIOL line
        e.setdefault("UBSAN_OPTIONS", "print_stacktrace=1:abort_on_error=1")
        if env:
            e.update(env)
        if len(c) > 2 and c[2]:
            e.update(c[2])
        t0 = time.time()
        try:
            p = subprocess.run(argv, capture_output=True, timeout=timeout, env=e)
            return tag, p.returncode, p.stdout.decode("latin-1"), p.stderr.decode("latin-1"), time.time() - t0
        except subprocess.TimeoutExpired as ex:
            return tag, "timeout", (ex.stdout or b"").decode("latin-1"), (ex.stderr or b"").decode("latin-1"), time.time() - t0
    with ThreadPoolExecutor(jobs) as ex:
        for tag, rc, out, err, dt in ex.map(one, cmds):
            res.runs += 1
            res.absorb(out, tag)
            if log:
                log.write("=== %s rc=%s %.1fs\n%s\n--- stderr\n%s\n" % (tag, rc, dt, out[-20000:], err[-8000:]))
            if rc not in ok_codes:
                res.errors.append("%s: harness exit %s; stderr tail: %s" % (tag, rc, err[-1500:]))
    return res


def load_findings(pid):
    out = []
    p = os.path.join(VERIF, "known_findings.jsonl")
    if os.path.exists(p):
        for l in open(p):
            l = l.strip()
            if not l or l.startswith("#"):
                continue
            d = json.loads(l)
            if d.get("property") == pid:
                out.append(d)
    return out


def finish(pid, tier, res, t0, level="model_checking", rule="", assumptions=(), extra=None,
           exhaustive=None):
    """Match violations against known findings, write replays + evidence, print verdict, exit."""
    known = [f for f in load_findings(pid) if f.get("status") == "known"]
    new, hits = [], {}
    for sig, replay, tag in res.viols:
        k = next((f for f in known if re.fullmatch(f["signature"], sig)), None)
        if k:
            hits.setdefault(k["signature"], [k, 0, replay])
            hits[k["signature"]][1] += 1
        else:
            new.append((sig, replay, tag))
    rdir = os.path.join(VERIF, "replays", pid) if os.path.realpath(REPO) == "/repo" else os.path.join(VERIF, "build", "replays_scratch", pid)
    lines = []
    if new or res.errors:
        os.makedirs(rdir, exist_ok=True)
    seen = {}
    for sig, replay, tag in new:
        seen.setdefault(sig, []).append((replay, tag))
    n = 0
    for sig, lst in seen.items():
        n += 1
        path = os.path.join(rdir, "%s_%d.replay" % (tier, n))
        with open(path, "w") as f:
            f.write("# property=%s signature=%s occurrences=%d\n" % (pid, sig, len(lst)))
            for replay, tag in lst[:20]:
                f.write("%s :: %s\n" % (tag, replay))
        lines.append("VIOLATION property=%s replay=%s" % (pid, path))
        print("  signature=%s occurrences=%d first: [%s] %s" % (sig, len(lst), lst[0][1], lst[0][0][:400]))
    for i, e in enumerate(res.errors[:5]):
        path = os.path.join(rdir, "%s_error_%d.txt" % (tier, i))
        with open(path, "w") as f:
            f.write(e + "\n")
        print("CHECK-ERROR property=%s %s" % (pid, e[:600]))
    for sig, (k, cnt, replay) in hits.items():
        print("KNOWN-FINDING: property=%s %s (signature %s, %d occurrences this run)" % (pid, k.get("what", ""), sig, cnt))
    st = res.stats
    cov = {
        "states": max(1, st.get("states", 0)),
        "transitions": max(1, st.get("transitions", 0)),
        "traces_validated_against_impl": st.get("executions", st.get("transitions", 0)),
        "samples": res.samples[:12] or ["(no sample emitted)"],
        "evaluations": max(1, st.get("executions", st.get("transitions", 0))),
        "distinct_nontrivial": len(res.outcomes) if res.outcomes else st.get("states", 0),
        "distinct_outcomes": len(res.outcomes),
        "rule": rule,
        "counters": st,
        "caps_hit": res.caps[:40],
        "exhaustive": (not res.caps and not res.errors) if exhaustive is None else exhaustive,
        "harness_processes": res.runs,
        "known_findings_seen": [{"signature": s, "occurrences": c} for s, (k, c, r) in hits.items()],
        "info": res.infos,
    }
    if res.outcomes:
        cov["outcome_histogram_top"] = sorted(res.outcomes.items(), key=lambda kv: -kv[1])[:15]
    if extra:
        cov.update(extra)
    ev = {
        "property_id": pid, "tier": tier, "seed": int(os.environ.get("VERIF_SEED", "0") or 0),
        "level": level, "coverage": cov, "assumptions": list(assumptions),
        "wall_s": round(time.time() - t0, 2), "violations": len(seen) + len(res.errors),
    }
    # runs against a scratch tree (VERIF_REPO=...) are trials, not evidence: keep them out of evidence/
    evdir = os.path.join(VERIF, "evidence") if os.path.realpath(REPO) == "/repo" else os.path.join(BUILD, "evidence_scratch")
    os.makedirs(evdir, exist_ok=True)
    with open(os.path.join(evdir, pid + ".json"), "w") as f:
        json.dump(ev, f, indent=1)
    # evidence/<id>.json is the latest run of either tier; a copy per tier is kept next to it (evidence/by_tier/<tier>/<id>.json)
    os.makedirs(os.path.join(evdir, "by_tier", tier), exist_ok=True)
    with open(os.path.join(evdir, "by_tier", tier, pid + ".json"), "w") as f:
        json.dump(ev, f, indent=1)
    print("%s %s: states=%s transitions=%s executions=%s outcomes=%d caps=%d wall=%.1fs" % (
        pid, tier, st.get("states", 0), st.get("transitions", 0), st.get("executions", 0),
        len(res.outcomes), len(res.caps), time.time() - t0))
    for l in lines:
        print(l)
    if res.errors and not lines:
        # an infrastructure failure is reported as a violation of the check itself
        print("VIOLATION property=%s replay=%s" % (pid, os.path.join(rdir, "%s_error_0.txt" % tier)))
    sys.exit(1 if (lines or res.errors) else 0)
