// Replaces base/log_impl.cpp where logging is not the subject (no global log mutex, no output).
extern "C" void LogPrintfFunc(const char *, const char *, const char *, int, int, int, const char *, ...) {}
