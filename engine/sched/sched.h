// Engine S, child side: cooperative scheduler reached by link-time interposition.
// The structures below live in MAP_SHARED memory so the exploring parent can read them.
#pragma once
#include <stdint.h>
#include <stddef.h>

#define SCHED_MAXT 12
#define SCHED_MAXP 1500          /* hard horizon: scheduling points per execution */
#define SCHED_MAXOPT 14
#define SCHED_NOTES 24576

#ifdef __cplusplus
extern "C" {
#endif

/* option encoding: 0..MAXT-1 = run thread t; 100+t = fire the timeout of thread t's timed wait;
   200+i = i-th alternative of an explicit choice point (cond_signal waiter choice, harness choice);
   300+t = spurious wake-up of thread t's condition wait (only with SCHED_SPURIOUS=<budget>, one deviation each). */
struct sched_point {
  int16_t cur;            /* running thread at this point */
  int8_t  curen;          /* is `cur` itself still enabled (a switch away is then a preemption) */
  int8_t  nthread_opts;   /* number of options that are threads (<100) */
  int16_t pick;
  int8_t  nopts;
  int8_t  kind;           /* 0 = scheduling point, 1 = choice point */
  int16_t opts[SCHED_MAXOPT];
  uint32_t state_hash;    /* optional harness-supplied abstract-state hash (0 = none) */
};
enum { SCHED_END_NONE = 0, SCHED_END_OK, SCHED_END_DEADLOCK, SCHED_END_HORIZON, SCHED_END_DIVERGE, SCHED_END_FAIL, SCHED_END_INTERNAL };
struct sched_trace {
  int32_t npoints;
  int32_t end;                 /* SCHED_END_* ; NONE means the child died without finishing */
  char    end_msg[160];
  int32_t notes_len;
  char    notes[SCHED_NOTES];  /* '\n'-separated harness notes */
  struct sched_point pts[SCHED_MAXP];
};

/* --- harness API (inside the child) --- */
void sched_begin(struct sched_trace *tr, const int16_t *prefix, int nprefix);  /* calling thread becomes thread 0 */
void sched_end(void);                        /* thread 0 only, after joining everything: marks OK and _exit(0) */
void sched_note(const char *fmt, ...);       /* appended to the trace */
void sched_fail(const char *fmt, ...);       /* oracle violation: recorded, execution stops (_exit) */
void sched_on_deadlock(void (*cb)(void));    /* state dump hook, may call sched_note */
void sched_on_point(uint32_t (*cb)(void));   /* optional abstract-state hash at every point */
int  sched_choose(int n);                    /* explicit choice point, default 0 */
void sched_point_here(void);                 /* explicit scheduling point */
int  sched_self(void);                       /* scheduler thread id of the caller (-1 if unknown) */
int  sched_active(void);
int  sched_steps(void);
int  sched_unfinished_others(void);          /* threads other than the caller that have not returned from their start routine */

#ifdef __cplusplus
}
#endif
