// Engine S, parent side: CHESS-style iterative context-bounded stateless DFS.
// Every execution is a forked child that runs the real code under the cooperative scheduler
// (sched.cpp) with a forced choice prefix and default choices afterwards; the child's choice
// points come back through shared memory. Up to `workers` children run concurrently.
#pragma once
#include "sched.h"
#include <algorithm>
#include <chrono>
#include <cstdio>
#include <cstdlib>
#include <cstring>
#include <functional>
#include <map>
#include <set>
#include <string>
#include <vector>
#include <fcntl.h>
#include <sys/mman.h>
#include <sys/wait.h>
#include <unistd.h>

namespace sx {
inline double now_s() { using namespace std::chrono; return duration_cast<duration<double>>(steady_clock::now().time_since_epoch()).count(); }

struct Outcome {
  int end = 0; std::string end_msg; std::vector<std::string> notes; std::vector<sched_point> pts;
  int wstatus = 0; std::string err;          // child's stderr (sanitizer reports)
  std::vector<int16_t> picks() const { std::vector<int16_t> v; for (auto &p : pts) v.push_back(p.pick); return v; }
  bool has_note(const char *s) const { for (auto &n : notes) if (n.find(s) != std::string::npos) return true; return false; }
};
inline std::string picks_str(const std::vector<int16_t> &v) { std::string s; for (auto x : v) { if (!s.empty()) s += ','; s += std::to_string(x); } return s; }
inline std::vector<int16_t> parse_picks(const char *s) { std::vector<int16_t> v; while (s && *s) { v.push_back((int16_t)atoi(s)); s = strchr(s, ','); if (s) s++; } return v; }

// cost of taking option `alt` at point p (0 for the default-style continuation)
inline int alt_cost(const sched_point &p, int alt) {
  if (p.kind == 1) return alt == p.opts[0] ? 0 : 1;                 // explicit choice: deviation from default
  if (alt >= 300) return 1;                                           // spurious wake-up of a condition waiter
  if (alt >= 100) return p.nthread_opts > 0 ? 1 : 0;                 // timeout fires although a thread could run
  if (p.curen && alt != p.cur) return 1;                             // preemption
  if (!p.curen && p.nthread_opts > 0 && alt != p.opts[0]) return 0;  // free choice among runnable threads at a blocking point
  return 0;
}

struct Explorer {
  std::string name = "sched";
  std::function<void()> body;                                   // child: runs between sched_begin and sched_end
  std::function<std::string(const Outcome &)> check;            // parent: extra oracle on a completed execution ("" = fine)
  std::function<std::string(const Outcome &)> classify_crash;   // optional signature for abnormal child exits
  int workers = 16; int child_timeout_s = 20; double deadline_s = 1e18;
  bool horizon_is_violation = true; bool tsan_reports_are_violations = true;
  bool prune_by_state_hash = false;     // accelerator (see DESIGN 1.2): explored (hash, remaining budget) pairs are skipped
  size_t max_viol_print = 30;

  size_t executions = 0, transitions = 0, violations = 0, pruned = 0; int completed_bound = -1; bool capped = false;
  std::map<std::string, size_t> outcomes, viol_sigs; std::set<std::string> races;
  std::vector<std::string> samples;
  std::set<std::pair<uint32_t, int>> seen_states;

  struct Slot { pid_t pid = 0; sched_trace *tr = 0; std::vector<int16_t> prefix; int errfd = -1; double t0 = 0; };

  pid_t launch(Slot &s, int timeout_s) {
    s.tr->npoints = 0; s.tr->end = 0; s.tr->notes_len = 0; s.tr->end_msg[0] = 0;
    if (s.errfd >= 0) close(s.errfd);
    s.errfd = open("/dev/shm", O_TMPFILE | O_RDWR, 0600);
    if (s.errfd < 0) { char tmpl[] = "/dev/shm/verif_err_XXXXXX"; s.errfd = mkstemp(tmpl); unlink(tmpl); }
    fflush(stdout);
    pid_t pid = fork();
    if (pid < 0) { perror("fork"); exit(3); }
    if (pid == 0) {
      dup2(s.errfd, 2); int dn = open("/dev/null", O_WRONLY); dup2(dn, 1);
      alarm((unsigned)timeout_s);
      sched_begin(s.tr, s.prefix.data(), (int)s.prefix.size());
      body();
      sched_end();
      _exit(0);
    }
    s.pid = pid; s.t0 = now_s();
    return pid;
  }
  Outcome collect(Slot &s, int st) {
    Outcome o; o.wstatus = st; o.end = s.tr->end; o.end_msg = s.tr->end_msg;
    int np = s.tr->npoints; if (np > SCHED_MAXP) np = SCHED_MAXP; o.pts.assign(s.tr->pts, s.tr->pts + np);
    std::string notes(s.tr->notes, (size_t)s.tr->notes_len); size_t a = 0;
    while (a < notes.size()) { size_t b = notes.find('\n', a); if (b == std::string::npos) b = notes.size(); o.notes.push_back(notes.substr(a, b - a)); a = b + 1; }
    off_t n = lseek(s.errfd, 0, SEEK_END); if (n > 0) { if (n > 200000) n = 200000; o.err.resize((size_t)n); ssize_t r = pread(s.errfd, &o.err[0], (size_t)n, 0); if (r < 0) o.err.clear(); }
    s.pid = 0; return o;
  }
  Outcome run_one(const std::vector<int16_t> &prefix, int timeout_s) {
    Slot s; s.tr = (sched_trace *)mmap(0, sizeof(sched_trace), PROT_READ | PROT_WRITE, MAP_SHARED | MAP_ANONYMOUS, -1, 0);
    s.prefix = prefix; pid_t pid = launch(s, timeout_s); int st = 0; waitpid(pid, &st, 0); Outcome o = collect(s, st);
    munmap(s.tr, sizeof(sched_trace)); close(s.errfd); return o;
  }

  static std::string tsan_race_key(const std::string &err, size_t pos) {
    // first frame of the two accesses: "#0 <func> <file>:<line>"
    std::string key; size_t p = pos;
    for (int k = 0; k < 2; k++) { p = err.find("#0 ", p); if (p == std::string::npos) break; size_t e = err.find('\n', p); std::string l = err.substr(p + 3, e - p - 3);
      size_t sl = l.rfind('/'); size_t sp = l.find(' ', sl == std::string::npos ? 0 : sl); std::string loc = l.substr(sl == std::string::npos ? 0 : sl + 1, sp == std::string::npos ? std::string::npos : sp - sl - 1);
      size_t c2 = loc.rfind(':'); if (c2 != std::string::npos && loc.find(':') != c2) loc = loc.substr(0, c2);   // drop column
      if (k == 0) key = loc; else key = (loc < key) ? loc + "~" + key : key + "~" + loc;   // unordered pair
      p = e; }
    return key;
  }

  // returns violation signature ("" = none) for one finished execution
  std::string judge(const Outcome &o, std::string &detail) {
    if (tsan_reports_are_violations) {
      size_t p = 0; std::string first;
      while ((p = o.err.find("ThreadSanitizer: data race", p)) != std::string::npos) { std::string k = tsan_race_key(o.err, p); if (!k.empty()) { races.insert(k); if (first.empty()) first = k; } p += 10; }
      if (!first.empty()) { detail = "data race " + first; return "race:" + first; }
    }
    switch (o.end) {
      case SCHED_END_OK: { std::string v = check ? check(o) : ""; if (!v.empty()) { detail = v; return v.substr(0, v.find(' ')); } return ""; }
      case SCHED_END_DEADLOCK: detail = o.end_msg; for (auto &n : o.notes) if (n.compare(0, 5, "DUMP ") == 0) detail += " | " + n; return "deadlock";
      case SCHED_END_HORIZON: detail = o.end_msg; return horizon_is_violation ? "horizon" : "";
      case SCHED_END_DIVERGE: detail = o.end_msg; return "harness-diverge";
      case SCHED_END_FAIL: { detail = o.end_msg; std::string s = o.end_msg; for (auto &c : s) if (c == ' ') c = '_'; return "fail:" + s.substr(0, 60); }
      case SCHED_END_INTERNAL: detail = o.end_msg; return "harness-internal";
      default: {
        if (classify_crash) { std::string s = classify_crash(o); if (!s.empty()) { detail = s; return s; } }
        std::string how = WIFSIGNALED(o.wstatus) ? "signal" + std::to_string(WTERMSIG(o.wstatus)) : "exit" + std::to_string(WEXITSTATUS(o.wstatus));
        std::string head; size_t p = o.err.find("ERROR: AddressSanitizer: ");
        if (p != std::string::npos) { size_t q = o.err.find_first_of(" \n", p + 25); head = ":asan-" + o.err.substr(p + 25, q - (p + 25)); }
        else if (o.err.find("terminate called") != std::string::npos) head = ":uncaught-exception";
        else if (o.err.find("runtime error:") != std::string::npos) head = ":ubsan";
        detail = "child died (" + how + ")" + head; return "crash:" + how + head; }
    }
  }

  void note_outcome(const Outcome &o) {
    std::string k = std::to_string(o.end) + "|"; for (auto &n : o.notes) if (n.compare(0, 2, "O ") == 0) k += n.substr(2) + ";";
    outcomes[k]++;
  }

  // one complete bounded search; returns false if it was cut by the deadline
  bool search(int bound) {
    std::vector<Slot> slots((size_t)workers);
    for (auto &s : slots) s.tr = (sched_trace *)mmap(0, sizeof(sched_trace), PROT_READ | PROT_WRITE, MAP_SHARED | MAP_ANONYMOUS, -1, 0);
    std::vector<std::vector<int16_t>> work(1); size_t live = 0; bool cut = false;
    std::vector<std::vector<int16_t>> slow;   // timed out: re-run alone with a longer limit before calling it a hang
    while (!work.empty() || live > 0) {
      while (!work.empty() && live < (size_t)workers) {
        if (now_s() > deadline_s) { cut = true; work.clear(); break; }
        for (auto &s : slots) if (s.pid == 0) { s.prefix.swap(work.back()); work.pop_back(); launch(s, child_timeout_s); live++; break; }
      }
      if (live == 0) break;
      int st = 0; pid_t pid = waitpid(-1, &st, 0); if (pid <= 0) break;
      Slot *sp = 0; for (auto &s : slots) if (s.pid == pid) sp = &s; if (!sp) continue;
      std::vector<int16_t> prefix = sp->prefix; Outcome o = collect(*sp, st); live--;
      if (o.end == SCHED_END_NONE && WIFSIGNALED(st) && WTERMSIG(st) == SIGALRM) { slow.push_back(prefix); continue; }
      process(o, prefix, bound, work);
    }
    for (auto &p : slow) { Outcome o = run_one(p, child_timeout_s * 6); process(o, p, bound, work); if (!work.empty()) { /* expand serially */ while (!work.empty()) { auto q = work.back(); work.pop_back(); Outcome o2 = run_one(q, child_timeout_s * 6); process(o2, q, bound, work); } } }
    for (auto &s : slots) { munmap(s.tr, sizeof(sched_trace)); if (s.errfd >= 0) close(s.errfd); }
    return !cut;
  }

  void process(const Outcome &o, const std::vector<int16_t> &prefix, int bound, std::vector<std::vector<int16_t>> &work) {
    executions++; transitions += o.pts.size(); note_outcome(o);
    if (samples.size() < 4 && o.pts.size() > 4 && (executions % 7 == 1)) samples.push_back(picks_str(o.picks()));
    std::string detail, sig = judge(o, detail);
    if (!sig.empty()) {
      violations++; size_t &n = viol_sigs[sig]; n++;
      if (n <= 2 && violations <= max_viol_print) {
        // replay before report: the same schedule must fail the same way
        Outcome again = run_one(o.picks(), child_timeout_s * 3); std::string d2, s2 = judge(again, d2);
        if (s2 != sig) printf("@VIOL sig=harness-unstable-replay :: %s picks=%s first=%s second=%s\n", name.c_str(), picks_str(o.picks()).c_str(), sig.c_str(), s2.c_str());
        else printf("@VIOL sig=%s :: %s picks=%s [%s] notes={%s}\n", sig.c_str(), name.c_str(), picks_str(o.picks()).c_str(), detail.c_str(), join_notes(o).c_str());
      }
      if (o.end == SCHED_END_DIVERGE || o.end == SCHED_END_INTERNAL) return;
    }
    // expand alternatives at points beyond the forced prefix
    int cost = 0; std::vector<int> cost_before(o.pts.size());
    for (size_t i = 0; i < o.pts.size(); i++) { cost_before[i] = cost; cost += alt_cost(o.pts[i], o.pts[i].pick); }
    for (size_t i = prefix.size(); i < o.pts.size(); i++) {
      const sched_point &p = o.pts[i];
      if (prune_by_state_hash && p.state_hash) { auto key = std::make_pair(p.state_hash ^ (uint32_t)(p.cur * 2654435761u), bound - cost_before[i]); if (!seen_states.insert(key).second) { pruned++; break; } }
      for (int k = 0; k < p.nopts; k++) { int alt = p.opts[k]; if (alt == p.pick) continue;
        if (cost_before[i] + alt_cost(p, alt) > bound) continue;
        std::vector<int16_t> np; np.reserve(i + 1); for (size_t j = 0; j < i; j++) np.push_back(o.pts[j].pick); np.push_back((int16_t)alt); work.push_back(std::move(np)); }
    }
  }
  static std::string join_notes(const Outcome &o) { std::string s; for (auto &n : o.notes) { if (s.size() > 600) break; if (!s.empty()) s += "; "; s += n; } return s; }

  // iterative bounding 0..max_bound; prints protocol lines
  void explore(int max_bound) {
    for (int b = 0; b <= max_bound; b++) {
      size_t e0 = executions; seen_states.clear();
      bool done = search(b);
      printf("@INFO %s: bound=%d executions=%zu %s\n", name.c_str(), b, executions - e0, done ? "complete" : "CUT by deadline");
      if (!done) { capped = true; printf("@CAP %s: deadline reached during bound %d (completed bound %d)\n", name.c_str(), b, completed_bound); break; }
      completed_bound = b;
    }
    for (auto &kv : outcomes) printf("@OUTCOME %s: %s x%zu\n", name.c_str(), kv.first.c_str(), kv.second);
    for (auto &s : samples) printf("@SAMPLE %s: picks=%s\n", name.c_str(), s.c_str());
    for (auto &r : races) printf("@INFO %s: race %s\n", name.c_str(), r.c_str());
    printf("@STAT states=%zu transitions=%zu executions=%zu violations=%zu pruned=%zu\n", executions, transitions, executions, violations, pruned);
    printf("@INFO %s: completed_bound=%d distinct_outcomes=%zu\n", name.c_str(), completed_bound, outcomes.size());
    fflush(stdout);
  }

  void replay(const std::vector<int16_t> &picks) {
    Outcome o = run_one(picks, child_timeout_s * 6); std::string d, s = judge(o, d);
    printf("replay %s: end=%d (%s) verdict=%s %s\n", name.c_str(), o.end, o.end_msg.c_str(), s.empty() ? "no-violation" : s.c_str(), d.c_str());
    for (size_t i = 0; i < o.pts.size(); i++) { auto &p = o.pts[i]; printf("  %3zu %s cur=%d%s pick=%d opts=", i, p.kind ? "choice" : "sched ", p.cur, p.curen ? "" : "(blocked)", p.pick); for (int k = 0; k < p.nopts; k++) printf("%d ", p.opts[k]); printf("\n"); }
    for (auto &n : o.notes) printf("  note: %s\n", n.c_str());
    if (!o.err.empty()) printf("  stderr: %s\n", o.err.substr(0, 3000).c_str());
  }
};
}  // namespace sx
