// A minimal event::Loop whose runInLoop is a mutex-protected queue (the real loop is C01's subject).
#pragma once
#include <tbox/event/loop.h>
#include "sched/sched.h"
#include <mutex>
#include <vector>
struct FakeLoop : tbox::event::Loop {
  std::mutex m; std::vector<Func> q; WaterLine wl; int posted = 0;
  bool closed_for_workers = false; int late_worker_posts = 0;     // set by a harness once the component's cleanup() has returned: a post from another thread after that is counted
  void runLoop(Mode) override {} void exitLoop(const std::chrono::milliseconds &) override {}
  bool isInLoopThread() override { return true; } bool isRunning() const override { return true; }
  RunId runInLoop(Func &&f, const std::string &) override { std::lock_guard<std::mutex> g(m); if (closed_for_workers && sched_self() != 0) late_worker_posts++; q.push_back(std::move(f)); return ++posted; }
  RunId runInLoop(const Func &f, const std::string &) override { std::lock_guard<std::mutex> g(m); if (closed_for_workers && sched_self() != 0) late_worker_posts++; q.push_back(f); return ++posted; }
  RunId runNext(Func &&f, const std::string &w) override { return runInLoop(std::move(f), w); }
  RunId runNext(const Func &f, const std::string &w) override { return runInLoop(f, w); }
  RunId run(Func &&f, const std::string &w) override { return runInLoop(std::move(f), w); }
  RunId run(const Func &f, const std::string &w) override { return runInLoop(f, w); }
  bool cancel(RunId) override { return false; }
  tbox::event::FdEvent *newFdEvent(const std::string &) override { return nullptr; }
  tbox::event::TimerEvent *newTimerEvent(const std::string &) override { return nullptr; }
  tbox::event::SignalEvent *newSignalEvent(const std::string &) override { return nullptr; }
  tbox::event::Stat getStat() const override { return tbox::event::Stat(); }
  void resetStat() override {} WaterLine &water_line() override { return wl; } void cleanup() override {}
  size_t drain() { size_t n = 0; for (;;) { std::vector<Func> t; { std::lock_guard<std::mutex> g(m); t.swap(q); } if (t.empty()) break; for (auto &f : t) { f(); n++; } } return n; }
};
