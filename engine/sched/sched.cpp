// Engine S: cooperative scheduler + libc/pthread interposers.
// Compiled WITHOUT sanitizer instrumentation; never allocates; hand-off by raw futex so that it
// contributes no happens-before edges of its own under ThreadSanitizer.
#include "sched.h"
#include <dlfcn.h>
#include <errno.h>
#include <linux/futex.h>
#include <pthread.h>
#include <stdarg.h>
#include <stdio.h>
#include <stdlib.h>
#include <string.h>
#include <sys/epoll.h>
#include <sys/select.h>
#include <sys/syscall.h>
#include <time.h>
#include <unistd.h>

extern "C" {
void __tsan_acquire(void *) __attribute__((weak));
void __tsan_release(void *) __attribute__((weak));
int __interceptor_pthread_create(pthread_t *, const pthread_attr_t *, void *(*)(void *), void *) __attribute__((weak));
int __interceptor_pthread_join(pthread_t, void **) __attribute__((weak));
}
#define TS_ACQ(p) do { if (__tsan_acquire) __tsan_acquire((void *)(p)); } while (0)
#define TS_REL(p) do { if (__tsan_release) __tsan_release((void *)(p)); } while (0)

namespace {
enum St { RUN, B_MUTEX, B_COND, B_JOIN, B_EPOLL, B_SELECT, FIN };
struct Th {
  int st; void *obj; int fut; pthread_t pt; bool timed, timedout; void *relock; int saved_cnt;
  int epfd, timeout_ms; int nfds; fd_set *rs, *ws, *es;
};
Th th[SCHED_MAXT]; int nth = 0; int cur = 0; bool active = false;
struct Mu { pthread_mutex_t *m; int owner; int cnt; };
const int MAXMU = 128; Mu mus[MAXMU]; int nmu = 0;
struct Wt { pthread_cond_t *c; int t; };
Wt waiters[SCHED_MAXT]; int nwait = 0;
const int16_t *prefix = 0; int nprefix = 0; int step = 0;
sched_trace *tr = 0;
void (*on_deadlock)() = 0; uint32_t (*on_point)() = 0;
__thread int self_id = -1;
struct Start { void *(*f)(void *); void *a; int id; }; Start starts[SCHED_MAXT];

long vclock_jumps = 0;   // virtual clock: constant, except that it jumps one hour ahead each time a timed wait expires
int spurious_left = 0;
void fwait(int *f) { while (__atomic_load_n(f, __ATOMIC_ACQUIRE) == 0) syscall(SYS_futex, f, FUTEX_WAIT, 0, 0, 0, 0); __atomic_store_n(f, 0, __ATOMIC_RELEASE); }
void fwake(int *f) { __atomic_store_n(f, 1, __ATOMIC_RELEASE); syscall(SYS_futex, f, FUTEX_WAKE, 1, 0, 0, 0); }

void finish(int end, const char *msg) __attribute__((noreturn));
void finish(int end, const char *msg) {
  static int once = 0;
  if (__atomic_exchange_n(&once, 1, __ATOMIC_SEQ_CST) == 0) {
    if (end == SCHED_END_DEADLOCK && on_deadlock) { void (*cb)() = on_deadlock; on_deadlock = 0; cb(); }
    if (tr) { strncpy(tr->end_msg, msg, sizeof(tr->end_msg) - 1); tr->npoints = step; __atomic_store_n(&tr->end, end, __ATOMIC_SEQ_CST); }
  }
  _exit(0);
}

Mu *mu(pthread_mutex_t *m) {
  for (int i = 0; i < nmu; i++) if (mus[i].m == m) return &mus[i];
  for (int i = 0; i < nmu; i++) if (mus[i].owner == -1 && mus[i].cnt == 0) { mus[i].m = m; return &mus[i]; }   // recycle a free slot
  if (nmu >= MAXMU) finish(SCHED_END_INTERNAL, "mutex table full");
  mus[nmu].m = m; mus[nmu].owner = -1; mus[nmu].cnt = 0; return &mus[nmu++];
}
bool is_recursive(pthread_mutex_t *m) { return (m->__data.__kind & 3) == PTHREAD_MUTEX_RECURSIVE_NP; }

bool enabled(int t) {
  Th &x = th[t];
  switch (x.st) {
    case RUN: return true;
    case B_MUTEX: { Mu *u = mu((pthread_mutex_t *)x.obj); return u->owner == -1 || (u->owner == t && is_recursive(u->m)); }
    case B_COND: return false;
    case B_JOIN: return th[(long)x.obj].st == FIN;
    case B_EPOLL: { struct epoll_event ev[8]; return syscall(SYS_epoll_wait, x.epfd, ev, 8, 0) > 0; }
    case B_SELECT: {
      fd_set r, w, e; struct timeval tv = {0, 0};
      if (x.rs) r = *x.rs; if (x.ws) w = *x.ws; if (x.es) e = *x.es;
      return syscall(SYS_select, x.nfds, x.rs ? &r : 0, x.ws ? &w : 0, x.es ? &e : 0, &tv) > 0; }
    default: return false;
  }
}
bool has_timeout(int t) { Th &x = th[t]; return (x.st == B_COND && x.timed) || ((x.st == B_EPOLL || x.st == B_SELECT) && x.timeout_ms >= 0); }

void record(int kind, int curen, int nthr, const int16_t *opts, int n, int pick) {
  if (step >= SCHED_MAXP) finish(SCHED_END_HORIZON, "step horizon reached");
  sched_point &p = tr->pts[step];
  p.cur = (int16_t)cur; p.curen = (int8_t)curen; p.nthread_opts = (int8_t)nthr; p.pick = (int16_t)pick; p.nopts = (int8_t)n; p.kind = (int8_t)kind;
  for (int i = 0; i < n && i < SCHED_MAXOPT; i++) p.opts[i] = opts[i];
  p.state_hash = on_point ? on_point() : 0;
  step++; tr->npoints = step;
}
int from_prefix(const int16_t *opts, int n) {   // returns the pick, or the default opts[0]
  if (step < nprefix) { for (int i = 0; i < n; i++) if (opts[i] == prefix[step]) return opts[i]; finish(SCHED_END_DIVERGE, "replayed prefix names an option that is not available"); }
  return opts[0];
}

// Called by the running thread `cur` at a scheduling point (its own state already describes what it waits for).
void schedule() {
  for (;;) {
    int16_t opts[SCHED_MAXOPT + SCHED_MAXT]; int n = 0;
    bool curen = enabled(cur);
    if (curen) opts[n++] = (int16_t)cur;
    for (int t = 0; t < nth; t++) if (t != cur && enabled(t)) opts[n++] = (int16_t)t;
    int nthr = n;
    for (int t = 0; t < nth; t++) if (has_timeout(t)) opts[n++] = (int16_t)(100 + t);
    // spurious wake-up of a condition waiter (SCHED_SPURIOUS=<budget per execution>, default 0 = off): never the default, never
    // offered when nothing else could happen (that state stays a deadlock), always costs one deviation
    if (n > 0 && spurious_left > 0) for (int t = 0; t < nth && n < SCHED_MAXOPT; t++) if (th[t].st == B_COND) opts[n++] = (int16_t)(300 + t);
    if (n > SCHED_MAXOPT) n = SCHED_MAXOPT;
    if (n == 0) { bool all = true; for (int t = 0; t < nth; t++) if (th[t].st != FIN) all = false; finish(all ? SCHED_END_OK : SCHED_END_DEADLOCK, all ? "all threads finished" : "DEADLOCK: no thread enabled"); }
    int pick = from_prefix(opts, n);
    record(0, curen, nthr, opts, n, pick);
    if (pick >= 300) {           // spurious wake-up: thread t leaves the wait without signal or timeout and re-contends for the mutex
      int t = pick - 300; Th &x = th[t]; spurious_left--;
      for (int i = 0; i < nwait; i++) if (waiters[i].t == t) { waiters[i] = waiters[--nwait]; break; }
      x.st = B_MUTEX; x.obj = x.relock;
      continue;
    }
    if (pick >= 100) {           // the timed wait of thread t expires: virtual time jumps past every pending deadline
      int t = pick - 100; Th &x = th[t]; x.timedout = true; vclock_jumps++;
      if (x.st == B_COND) { for (int i = 0; i < nwait; i++) if (waiters[i].t == t) { waiters[i] = waiters[--nwait]; break; } x.st = B_MUTEX; x.obj = x.relock; }
      else x.st = RUN;
      continue;
    }
    int prev = cur; cur = pick;
    if (pick != prev) { fwake(&th[pick].fut); if (th[prev].st != FIN) fwait(&th[prev].fut); }
    return;
  }
}
inline void point() { if (active && self_id >= 0) schedule(); }

int cwait(pthread_cond_t *c, pthread_mutex_t *m, bool timed) {
  int me = self_id;
  point();                                   // step 1: still holding the mutex, not yet a waiter
  TS_REL(m);
  Mu *u = mu(m); if (u->owner != me) finish(SCHED_END_FAIL, "cond_wait: mutex not owned by caller");
  th[me].saved_cnt = u->cnt; u->cnt = 0; u->owner = -1;
  if (nwait >= SCHED_MAXT) finish(SCHED_END_INTERNAL, "waiter table full");
  waiters[nwait].c = c; waiters[nwait].t = me; nwait++;
  th[me].st = B_COND; th[me].obj = c; th[me].timed = timed; th[me].timedout = false; th[me].relock = m;
  point();                                   // step 2: blocked until signalled (-> B_MUTEX) and the mutex is free
  u = mu(m); u->owner = me; u->cnt = th[me].saved_cnt; th[me].st = RUN; th[me].timed = false; TS_ACQ(m);
  return th[me].timedout ? ETIMEDOUT : 0;
}
void wake_waiter(int idx) { int t = waiters[idx].t; for (int i = idx; i + 1 < nwait; i++) waiters[i] = waiters[i + 1]; nwait--; th[t].st = B_MUTEX; th[t].obj = th[t].relock; }

void *tramp(void *p) {
  Start s = *(Start *)p; self_id = s.id; fwait(&th[s.id].fut);
  void *r = s.f(s.a);
  th[s.id].st = FIN; schedule();
  return r;
}
template <class F> F real(const char *name) { return (F)dlsym(RTLD_NEXT, name); }
}  // namespace

extern "C" {
void sched_begin(sched_trace *t, const int16_t *pfx, int npfx) {
  tr = t; prefix = pfx; nprefix = npfx; step = 0; tr->npoints = 0; tr->end = SCHED_END_NONE; tr->notes_len = 0; tr->end_msg[0] = 0;
  nth = 1; cur = 0; self_id = 0; th[0].st = RUN; th[0].fut = 0; nmu = 0; nwait = 0; vclock_jumps = 0;
  { const char *e = getenv("SCHED_SPURIOUS"); spurious_left = e ? atoi(e) : 0; }
  active = true;
}
void sched_end(void) { th[0].st = FIN; active = false; finish(SCHED_END_OK, "ok"); }
void sched_on_deadlock(void (*cb)(void)) { on_deadlock = cb; }
void sched_on_point(uint32_t (*cb)(void)) { on_point = cb; }
int sched_self(void) { return self_id; }
int sched_active(void) { return active; }
int sched_steps(void) { return step; }
int sched_unfinished_others(void) { int n = 0; for (int t = 0; t < nth; t++) if (t != self_id && th[t].st != FIN) n++; return n; }
void sched_note(const char *fmt, ...) {
  if (!tr) return; char b[400]; va_list ap; va_start(ap, fmt); int n = vsnprintf(b, sizeof b, fmt, ap); va_end(ap);
  if (n < 0) return; if (n >= (int)sizeof b) n = sizeof b - 1;
  if (tr->notes_len + n + 1 >= SCHED_NOTES) return;
  memcpy(tr->notes + tr->notes_len, b, (size_t)n); tr->notes_len += n; tr->notes[tr->notes_len++] = '\n';
}
void sched_fail(const char *fmt, ...) {
  char b[160]; va_list ap; va_start(ap, fmt); vsnprintf(b, sizeof b, fmt, ap); va_end(ap);
  finish(SCHED_END_FAIL, b);
}
int sched_choose(int n) {
  if (!active || n <= 1) return 0;
  int16_t opts[SCHED_MAXOPT]; if (n > SCHED_MAXOPT) n = SCHED_MAXOPT;
  for (int i = 0; i < n; i++) opts[i] = (int16_t)(200 + i);
  int pick = from_prefix(opts, n); record(1, 1, 0, opts, n, pick); return pick - 200;
}
void sched_point_here(void) { point(); }

int pthread_mutex_lock(pthread_mutex_t *m) {
  if (!active || self_id < 0) { static auto r = real<int (*)(pthread_mutex_t *)>("pthread_mutex_lock"); return r(m); }
  int me = self_id; th[me].st = B_MUTEX; th[me].obj = m; point();
  Mu *u = mu(m); u->owner = me; u->cnt++; th[me].st = RUN; TS_ACQ(m); return 0;
}
int pthread_mutex_trylock(pthread_mutex_t *m) {
  if (!active || self_id < 0) { static auto r = real<int (*)(pthread_mutex_t *)>("pthread_mutex_trylock"); return r(m); }
  point(); Mu *u = mu(m);
  if (u->owner == -1 || (u->owner == self_id && is_recursive(m))) { u->owner = self_id; u->cnt++; TS_ACQ(m); return 0; }
  return EBUSY;
}
int pthread_mutex_unlock(pthread_mutex_t *m) {
  if (!active || self_id < 0) { static auto r = real<int (*)(pthread_mutex_t *)>("pthread_mutex_unlock"); return r(m); }
  TS_REL(m); Mu *u = mu(m); if (u->owner != self_id) finish(SCHED_END_FAIL, "unlock of a mutex not owned by the caller");
  if (--u->cnt == 0) u->owner = -1;
  point(); return 0;
}
int pthread_cond_wait(pthread_cond_t *c, pthread_mutex_t *m) {
  if (!active || self_id < 0) { static auto r = real<int (*)(pthread_cond_t *, pthread_mutex_t *)>("pthread_cond_wait"); return r(c, m); }
  return cwait(c, m, false);
}
int pthread_cond_clockwait(pthread_cond_t *c, pthread_mutex_t *m, clockid_t k, const struct timespec *t) {
  if (!active || self_id < 0) { static auto r = real<int (*)(pthread_cond_t *, pthread_mutex_t *, clockid_t, const struct timespec *)>("pthread_cond_clockwait"); return r(c, m, k, t); }
  return cwait(c, m, true);
}
int pthread_cond_timedwait(pthread_cond_t *c, pthread_mutex_t *m, const struct timespec *t) {
  if (!active || self_id < 0) { static auto r = real<int (*)(pthread_cond_t *, pthread_mutex_t *, const struct timespec *)>("pthread_cond_timedwait"); return r(c, m, t); }
  return cwait(c, m, true);
}
int pthread_cond_signal(pthread_cond_t *c) {
  if (!active || self_id < 0) { static auto r = real<int (*)(pthread_cond_t *)>("pthread_cond_signal"); return r(c); }
  int idx[SCHED_MAXT], k = 0; for (int i = 0; i < nwait; i++) if (waiters[i].c == c) idx[k++] = i;
  if (k > 0) wake_waiter(idx[sched_choose(k)]);          // which waiter wakes is the kernel's choice: a choice point
  point(); return 0;
}
int pthread_cond_broadcast(pthread_cond_t *c) {
  if (!active || self_id < 0) { static auto r = real<int (*)(pthread_cond_t *)>("pthread_cond_broadcast"); return r(c); }
  for (int i = 0; i < nwait;) if (waiters[i].c == c) wake_waiter(i); else i++;
  point(); return 0;
}
int pthread_create(pthread_t *t, const pthread_attr_t *a, void *(*f)(void *), void *arg) {
  auto r = real<int (*)(pthread_t *, const pthread_attr_t *, void *(*)(void *), void *)>("pthread_create");
  if (__interceptor_pthread_create) r = __interceptor_pthread_create;
  if (!active || self_id < 0) return r(t, a, f, arg);
  if (nth >= SCHED_MAXT) finish(SCHED_END_INTERNAL, "thread table full");
  int id = nth++; th[id].st = RUN; th[id].fut = 0; starts[id].f = f; starts[id].a = arg; starts[id].id = id;
  int rc = r(t, a, tramp, &starts[id]); th[id].pt = *t; point(); return rc;
}
int pthread_join(pthread_t t, void **ret) {
  auto r = real<int (*)(pthread_t, void **)>("pthread_join");
  if (__interceptor_pthread_join) r = __interceptor_pthread_join;
  if (!active || self_id < 0) return r(t, ret);
  int id = -1; for (int i = 1; i < nth; i++) if (pthread_equal(th[i].pt, t)) id = i;
  if (id < 0) finish(SCHED_END_FAIL, "pthread_join on an unknown/stale thread handle");
  int me = self_id; th[me].st = B_JOIN; th[me].obj = (void *)(long)id; point(); th[me].st = RUN;
  return r(t, ret);
}
int epoll_wait(int epfd, struct epoll_event *ev, int maxev, int timeout) {
  if (!active || self_id < 0) return (int)syscall(SYS_epoll_wait, epfd, ev, maxev, timeout);
  int me = self_id;
  if (timeout == 0) { point(); return (int)syscall(SYS_epoll_wait, epfd, ev, maxev, 0); }
  th[me].st = B_EPOLL; th[me].epfd = epfd; th[me].timeout_ms = timeout; th[me].timedout = false; point(); th[me].st = RUN;
  return (int)syscall(SYS_epoll_wait, epfd, ev, maxev, 0);
}
int select(int nfds, fd_set *rs, fd_set *ws, fd_set *es, struct timeval *tv) {
  if (!active || self_id < 0) return (int)syscall(SYS_select, nfds, rs, ws, es, tv);
  int me = self_id; struct timeval z = {0, 0};
  if (tv && tv->tv_sec == 0 && tv->tv_usec == 0) { point(); return (int)syscall(SYS_select, nfds, rs, ws, es, &z); }
  th[me].st = B_SELECT; th[me].nfds = nfds; th[me].rs = rs; th[me].ws = ws; th[me].es = es; th[me].timeout_ms = tv ? (int)(tv->tv_sec * 1000 + tv->tv_usec / 1000) : -1; th[me].timedout = false;
  point(); th[me].st = RUN;
  return (int)syscall(SYS_select, nfds, rs, ws, es, &z);
}
ssize_t write(int fd, const void *b, size_t n) { if (active && fd > 2) point(); return syscall(SYS_write, fd, b, n); }
ssize_t read(int fd, void *b, size_t n) { if (active && fd > 2) point(); return syscall(SYS_read, fd, b, n); }
// libstdc++'s wait_for/wait_until re-read the clock after pthread_cond_clockwait returns to decide between timeout and
// no_timeout, so the clock must agree with the scheduler's decision, not with real time.
int clock_gettime(clockid_t id, struct timespec *ts) {
  if (!active || self_id < 0) return (int)syscall(SYS_clock_gettime, id, ts);
  ts->tv_sec = 1000000 + 3600 * vclock_jumps; ts->tv_nsec = 0; return 0;
}
int usleep(useconds_t us) { if (!active || self_id < 0) { struct timespec ts = {(time_t)(us / 1000000), (long)(us % 1000000) * 1000}; return (int)syscall(SYS_nanosleep, &ts, 0); } point(); return 0; }
int nanosleep(const struct timespec *req, struct timespec *rem) { if (!active || self_id < 0) return (int)syscall(SYS_nanosleep, req, rem); point(); return 0; }
int clock_nanosleep(clockid_t c, int f, const struct timespec *req, struct timespec *rem) { if (!active || self_id < 0) return (int)syscall(SYS_clock_nanosleep, c, f, req, rem); point(); return 0; }
int sched_yield(void) { if (!active || self_id < 0) return (int)syscall(SYS_sched_yield); point(); return 0; }
}
