// Engine H: explicit-state breadth-first search over operation histories.
// A state is the op history that reaches it, replayed on a fresh real object by the harness'
// `run` function, which returns the canonical state string and sets `viol` on an oracle failure.
// Layer-synchronous BFS with canonical-state deduplication; optional fork-per-evaluation with a
// pool of concurrent children (for code with process-global state or fatal outcomes).
#pragma once
#include <algorithm>
#include <chrono>
#include <csignal>
#include <cstdio>
#include <cstdlib>
#include <cstring>
#include <deque>
#include <exception>
#include <fcntl.h>
#include <functional>
#include <map>
#include <string>
#include <unordered_set>
#include <utility>
#include <cstdint>
#include <vector>
#include <poll.h>
#include <sys/mman.h>
#include <sys/wait.h>
#include <unistd.h>

namespace hx {

// ---------------------------------------------------------------------------------------------
// crash reporting for in-process exploration: the harness keeps the textual form of the history
// under evaluation in g_cur; a fatal signal / sanitizer report prints it as a @VIOL line.
static char g_cur[8192];
static char g_cur_tag[256] = "crash";
inline void set_current(const std::string &s) { strncpy(g_cur, s.c_str(), sizeof(g_cur) - 1); g_cur[sizeof(g_cur)-1]=0; }
inline void emit_crash(const char *why) {
  char b[9000];
  int n = snprintf(b, sizeof b, "\n@VIOL sig=%s:%s :: %s\n", g_cur_tag, why, g_cur);
  if (n > 0) { ssize_t r = write(1, b, (size_t)n); (void)r; }
}
static void on_fatal(int sig) {
  emit_crash(sig == SIGSEGV ? "SIGSEGV" : sig == SIGABRT ? "SIGABRT" : sig == SIGFPE ? "SIGFPE" : sig == SIGBUS ? "SIGBUS" : "signal");
  _exit(1);
}
inline void install_crash_reporter(const char *tag = "crash") {
  strncpy(g_cur_tag, tag, sizeof(g_cur_tag) - 1);
  signal(SIGSEGV, on_fatal); signal(SIGABRT, on_fatal); signal(SIGFPE, on_fatal); signal(SIGBUS, on_fatal);
  std::set_terminate([] { emit_crash("uncaught-exception"); _exit(1); });
}
}  // namespace hx
// AddressSanitizer calls this (if defined) when it reports an error.
extern "C" void __asan_on_error() { hx::emit_crash("asan"); }

namespace hx {

inline double now_s() {
  using namespace std::chrono;
  return duration_cast<duration<double>>(steady_clock::now().time_since_epoch()).count();
}

struct Eval { std::string canon, viol; };

// Run `f` in a forked child; canon/viol come back through a pipe. A child that dies abnormally
// becomes a violation "crash:<how>" with the first sanitizer headline (if any) appended.
inline Eval eval_forked_finish(int fd_out, int fd_err, pid_t pid) {
  std::string out, err; char buf[4096]; ssize_t n;
  while ((n = read(fd_out, buf, sizeof buf)) > 0) out.append(buf, (size_t)n);
  while ((n = read(fd_err, buf, sizeof buf)) > 0) { if (err.size() < 65536) err.append(buf, (size_t)n); }
  close(fd_out); close(fd_err);
  int st = 0; waitpid(pid, &st, 0);
  Eval e;
  size_t z = out.find('\0');
  bool complete = (z != std::string::npos) && out.size() >= 2 && out.back() == '\1';
  if (complete) { e.canon = out.substr(0, z); e.viol = out.substr(z + 1, out.size() - z - 2); }
  if (!complete || !WIFEXITED(st) || WEXITSTATUS(st) != 0) {
    std::string how;
    if (WIFSIGNALED(st)) how = "signal" + std::to_string(WTERMSIG(st));
    else how = "exit" + std::to_string(WEXITSTATUS(st));
    std::string head;
    size_t p = err.find("ERROR: AddressSanitizer: ");
    if (p != std::string::npos) { size_t q = err.find_first_of(" \n", p + 25); head = "asan-" + err.substr(p + 25, q - (p + 25)); }
    else if ((p = err.find("runtime error: ")) != std::string::npos) { head = "ubsan"; }
    else if ((p = err.find("terminate called")) != std::string::npos) {
      head = "uncaught-exception";
      size_t w = err.find("what():", p); if (w != std::string::npos) { size_t q = err.find('\n', w); std::string what = err.substr(w + 8, q - (w + 8)); for (auto &c : what) if (c == ' ') c = '_'; head += "(" + what.substr(0, 40) + ")"; }
    }
    else if (err.find("stack-overflow") != std::string::npos) head = "stack-overflow";
    if (e.viol.empty()) e.viol = "crash:" + how + (head.empty() ? "" : ":" + head);
  }
  return e;
}

// Visited set: by default a state is remembered by a 128-bit fingerprint of its canonical string (libstdc++'s 64-bit
// Murmur hash and a 64-bit FNV-1a), not by the string itself - "hash compaction" as in Spin/TLC. A depth-6/7 search keeps 10^7 states and
// the full strings (100-400 bytes each, more under ASan) exhausted the machine's memory when 16 harness processes ran side by side.
// Two different states are merged only if both hashes collide: for n states the probability is below n^2 / 2^129 (n = 10^8: < 10^-22).
// full_keys = true (or VERIF_FULL_KEYS=1) keeps the strings.
struct Fp128 { uint64_t a, b; bool operator==(const Fp128 &o) const { return a == o.a && b == o.b; } };
struct Fp128Hash { size_t operator()(const Fp128 &k) const { return (size_t)(k.a ^ (k.b * 0x9E3779B97F4A7C15ull)); } };
inline Fp128 fingerprint(const std::string &s) {
  uint64_t f = 0xCBF29CE484222325ull; for (unsigned char ch : s) { f ^= ch; f *= 0x100000001B3ull; }    // FNV-1a: a different algorithm, so that a weakness of one is not shared
  f ^= f >> 29; f *= 0xBF58476D1CE4E5B9ull; f ^= f >> 32;
  return Fp128{(uint64_t)std::_Hash_bytes(s.data(), s.size(), 0xC70F6907u), f ^ ((uint64_t)s.size() << 52)};
}
struct SeenSet {
  bool full = false; std::unordered_set<std::string> strs; std::unordered_set<Fp128, Fp128Hash> fps;
  bool insert(const std::string &c) { return full ? strs.insert(c).second : fps.insert(fingerprint(c)).second; }
  bool count(const std::string &c) const { return full ? strs.count(c) != 0 : fps.count(fingerprint(c)) != 0; }
};

template <class Op>
struct Explorer {
  using Hist = std::vector<Op>;
  std::function<std::vector<Op>(const Hist &)> menu;                   // enabled ops after a history, simplest first
  std::function<std::string(const Hist &, std::string &viol)> run;     // replay on a fresh object; canon + oracle
  std::function<std::string(const Op &)> show;
  std::function<std::string(const std::string &viol)> sig;             // violation text -> signature (default: first token)
  std::string name = "hist";
  int fork_workers = 0;          // 0 = in-process; >0 = fork per evaluation with this many concurrent children
  double deadline_s = 1e18;      // absolute (now_s()) deadline; hitting it is a reported cap
  size_t max_states = (size_t)-1;
  bool full_keys = false;        // true: the visited set keeps whole canonical strings instead of 128-bit fingerprints
  size_t chunk_candidates = 1u << 17;   // candidates evaluated per batch (memory bound; the exploration order does not depend on it)
  size_t max_viol_print = 40;
  bool check_replay_determinism = true;   // re-evaluate a sample of histories and compare canon
  int child_timeout_s = 20;
  bool expand_after_violation = false;
  int part = 0, nparts = 1;      // optional partition of the search by the FIRST op (index % nparts == part): run nparts processes in parallel

  size_t states = 0, transitions = 0, violations = 0, maxdepth = 0, samples_out = 0, redet = 0;
  bool fixpoint = true, capped = false;
  std::map<std::string, size_t> viol_sigs;

  std::string hist_str(const Hist &h) const { std::string s; for (auto &o : h) { if (!s.empty()) s += ' '; s += show(o); } return s.empty() ? "<empty>" : s; }

  Eval eval_inproc(const Hist &h) { set_current(name + ": " + hist_str(h)); Eval e; e.canon = run(h, e.viol); return e; }

  struct Child { pid_t pid; int fo, fe; size_t idx; double t0; };
  Child spawn(const Hist &h, size_t idx) {
    int po[2], pe[2]; if (pipe(po) || pipe(pe)) { perror("pipe"); exit(3); }
    fflush(stdout);
    pid_t pid = fork();
    if (pid < 0) { perror("fork"); exit(3); }
    if (pid == 0) {
      close(po[0]); close(pe[0]); dup2(pe[1], 2); close(pe[1]);
      int devnull = open("/dev/null", 1); dup2(devnull, 1);
      alarm((unsigned)child_timeout_s);
      std::string v; std::string c = run(h, v);
      std::string msg = c; msg.push_back('\0'); msg += v; msg.push_back('\1');
      size_t off = 0; while (off < msg.size()) { ssize_t n = write(po[1], msg.data() + off, msg.size() - off); if (n <= 0) break; off += (size_t)n; }
      _exit(0);
    }
    close(po[1]); close(pe[1]);
    return Child{pid, po[0], pe[0], idx, now_s()};
  }

  void eval_batch(const std::vector<Hist> &hs, std::vector<Eval> &out) {
    out.assign(hs.size(), Eval());
    if (fork_workers <= 0) { for (size_t i = 0; i < hs.size(); i++) { if (now_s() > deadline_s) { capped = true; out.resize(i); return; } out[i] = eval_inproc(hs[i]); } return; }
    // sliding window of children; results are collected in submission order (pipes buffer up to 64 KiB)
    std::deque<Child> live; size_t next = 0;
    while (next < hs.size() || !live.empty()) {
      while (!capped && next < hs.size() && (int)live.size() < fork_workers) {
        if (now_s() > deadline_s) { capped = true; break; }
        live.push_back(spawn(hs[next], next)); next++;
      }
      if (live.empty()) break;
      Child c = live.front(); live.pop_front();
      out[c.idx] = eval_forked_finish(c.fo, c.fe, c.pid);
    }
    out.resize(next);   // everything spawned has been collected, in order
  }

  void report_viol(const Hist &h, const std::string &v) {
    violations++;
    std::string s = sig ? sig(v) : v.substr(0, v.find(' '));
    size_t &n = viol_sigs[s]; n++;
    if (n <= 3 && violations <= max_viol_print) printf("@VIOL sig=%s :: %s: %s  [%s]\n", s.c_str(), name.c_str(), hist_str(h).c_str(), v.c_str());
  }

  void explore(size_t depth) {
    SeenSet seen; seen.full = full_keys || (getenv("VERIF_FULL_KEYS") && atoi(getenv("VERIF_FULL_KEYS")) != 0);
    std::vector<Hist> layer; std::vector<Eval> ev;
    { std::vector<Hist> init(1); eval_batch(init, ev); if (ev.empty()) return; if (!ev[0].viol.empty()) { report_viol(init[0], ev[0].viol); } seen.insert(ev[0].canon); states = 1; layer.push_back(Hist()); }
    for (size_t d = 0; d < depth && !layer.empty() && !capped; d++) {
      // the layer is expanded in chunks (same order as in one piece) so that the candidates and their results never occupy more than
      // a bounded amount of memory - a depth-6 layer can have tens of millions of candidates
      std::vector<Hist> next; size_t li = 0;
      while (li < layer.size() && !capped) {
        std::vector<Hist> cand;
        while (li < layer.size() && cand.size() < chunk_candidates) {
          const Hist &h = layer[li++]; size_t oi = 0;
          for (auto &op : menu(h)) { if (d == 0 && nparts > 1 && (int)(oi++ % (size_t)nparts) != part) continue; cand.push_back(h); cand.back().push_back(op); }
        }
        eval_batch(cand, ev);
        for (size_t i = 0; i < ev.size(); i++) {
          transitions++;
          if (!ev[i].viol.empty()) { report_viol(cand[i], ev[i].viol); if (!expand_after_violation) continue; }
          if (seen.insert(ev[i].canon)) {
            states++; maxdepth = std::max(maxdepth, cand[i].size());
            if (samples_out < 3 && cand[i].size() >= std::min<size_t>(depth, 3)) { samples_out++; printf("@SAMPLE %s: %s => %s\n", name.c_str(), hist_str(cand[i]).c_str(), ev[i].canon.substr(0, 200).c_str()); }
            next.push_back(cand[i]);
            if (states >= max_states) { capped = true; printf("@CAP %s: max_states %zu reached at depth %zu\n", name.c_str(), max_states, d + 1); break; }
          }
        }
        if (ev.size() < cand.size()) { capped = true; }
      }
      // determinism of replay: the same history must give the same canonical state
      if (check_replay_determinism && !next.empty()) {
        std::vector<Hist> again; size_t stepn = std::max<size_t>(1, next.size() / 8);
        for (size_t i = 0; i < next.size(); i += stepn) again.push_back(next[i]);
        std::vector<Eval> ev2; eval_batch(again, ev2);
        for (size_t i = 0; i < ev2.size(); i++) { redet++; if (!seen.count(ev2[i].canon)) { printf("@VIOL sig=harness-nondeterministic-replay :: %s: %s\n", name.c_str(), hist_str(again[i]).c_str()); violations++; } }
      }
      layer.swap(next);
      if (d + 1 == depth && !layer.empty()) fixpoint = false;
    }
    if (capped) { fixpoint = false; if (now_s() > deadline_s) printf("@CAP %s: deadline reached, states=%zu depth=%zu\n", name.c_str(), states, maxdepth); }
    printf("@STAT states=%zu transitions=%zu executions=%zu violations=%zu replay_checks=%zu\n", states, transitions, transitions + redet + 1, violations, redet);
    printf("@INFO %s: depth_bound=%zu maxdepth=%zu states=%zu transitions=%zu fixpoint=%d\n", name.c_str(), depth, maxdepth, states, transitions, (int)fixpoint);
    fflush(stdout);
  }
};

inline double deadline_from_env(double dflt_s) {
  const char *e = getenv("VERIF_DEADLINE_S");
  return now_s() + (e ? atof(e) : dflt_s);
}
inline long env_int(const char *k, long d) { const char *e = getenv(k); return e ? atol(e) : d; }

}  // namespace hx
