// Robust access to private members of the code under test (harnesses are built with -fno-access-control).
//
// A harness that names a private field stops COMPILING when a refactoring renames or removes that field - and a check that does
// not build decides nothing (seed C12-3 did exactly that). Fields that only feed the canonical state key or a diagnostic dump should
// therefore be read through these probes: if the member exists it is read, if not a default is used, the fact is reported once as
// "@INFO missing-member <name>", and vf_any_missing() turns true so that the harness can make its state key finer (e.g. append the
// last few ops of the history) instead of silently merging states it can no longer tell apart. The ORACLE must never depend on a
// probed field: it is decided by the reference model.
//
//   VF_PROBE(read_index_)                       // once per member name, at namespace scope
//   size_t r = VF_GET(read_index_, buf, (size_t)0);          // value of buf.read_index_ converted to the type of the default
//   size_t n = VF_SIZE(fd_events, *rec, (size_t)0);          // rec->fd_events.size()
//   if (VF_HAS(close_index, conn)) ...
#pragma once
#include <cstdio>
#include <cstring>

inline bool &vf_missing_flag() { static bool f = false; return f; }
inline bool vf_any_missing() { return vf_missing_flag(); }
inline void vf_note_missing(const char *name) {
  static char seen[2048]; vf_missing_flag() = true;
  char key[96]; snprintf(key, sizeof key, "|%s|", name);
  if (strstr(seen, key)) return;
  if (strlen(seen) + strlen(key) + 1 < sizeof seen) strcat(seen, key);
  printf("@INFO missing-member %s (state key falls back to a default for it)\n", name); fflush(stdout);
}

#define VF_PROBE(name)                                                                                                         \
  struct vf_probe_##name {                                                                                                     \
    template <class T, class D> static auto get(T &o, const D &, int) -> decltype(static_cast<D>(o.name)) { return static_cast<D>(o.name); } \
    template <class T, class D> static D get(T &, const D &d, long) { vf_note_missing(#name); return d; }                      \
    template <class T, class D> static auto size(T &o, const D &, int) -> decltype(static_cast<D>(o.name.size())) { return static_cast<D>(o.name.size()); } \
    template <class T, class D> static D size(T &, const D &d, long) { vf_note_missing(#name); return d; }                     \
    template <class T> static auto has(T &o, int) -> decltype((void)o.name, true) { return true; }                             \
    template <class T> static bool has(T &, long) { return false; }                                                            \
  };
#define VF_GET(name, obj, dflt) vf_probe_##name::get((obj), (dflt), 0)
#define VF_SIZE(name, obj, dflt) vf_probe_##name::size((obj), (dflt), 0)
#define VF_HAS(name, obj) vf_probe_##name::has((obj), 0)
