#!/bin/bash
# usage: engine/run_all.sh <quick|thorough> [ids...]  - runs the checks one after the other in /verif against /repo, logs to notes/run_all_<tier>.log
cd /verif; tier=$1; shift; ids=${@:-$(seq -f "C%02g" 1 20)}; log=/verif/notes/run_all_$tier.log; echo "# run started $(date -u +%FT%TZ) ids: $ids" >> $log
for p in $ids; do s=$(date +%s); ./check $p --tier $tier > /verif/build/run_all_$p.$tier.out 2>&1; rc=$?; e=$(( $(date +%s) - s ))
  echo "$p rc=$rc wall=${e}s $(grep -E "^$p $tier" /verif/build/run_all_$p.$tier.out | tail -1 | cut -c1-160)" >> $log
  grep -E "^VIOLATION|KNOWN-FINDING|CHECK-ERROR|Traceback" /verif/build/run_all_$p.$tier.out | head -5 >> $log
done; echo "ALL DONE $(date -u +%T)" >> $log
