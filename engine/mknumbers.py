#!/usr/bin/env python3
"""prints a markdown table of the latest per-tier evidence (evidence/by_tier/<tier>/<id>.json) for DESIGN.md section 9.8"""
import json, os
V = os.path.dirname(os.path.dirname(os.path.abspath(__file__)))
def cell(t, p):
    f = os.path.join(V, "evidence", "by_tier", t, p + ".json")
    if not os.path.exists(f): return "-"
    e = json.load(open(f)); c = e["coverage"]
    caps = c.get("caps_hit", c.get("caps"))
    ncaps = len(caps) if isinstance(caps, list) else caps
    return "%s st / %s tr / %s ex, %s, %.0f s%s" % (
        "{:,}".format(c.get("states", 0)), "{:,}".format(c.get("transitions", 0)), "{:,}".format(c.get("evaluations", c.get("traces_validated_against_impl", 0))),
        "exhaustive within the stated bounds" if c.get("exhaustive") else "NOT exhaustive (caps: %s)" % ncaps, e.get("wall_s", 0), "" if e.get("violations", 0) == 0 else " **violations=%s**" % e["violations"])
print("| property | quick | thorough |\n|---|---|---|")
for i in range(1, 21):
    p = "C%02d" % i; print("| %s | %s | %s |" % (p, cell("quick", p), cell("thorough", p)))
