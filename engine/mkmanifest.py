#!/usr/bin/env python3
"""Regenerates /verif/MANIFEST.json from the table below (single source of truth)."""
import json, os
VERIF = os.path.dirname(os.path.dirname(os.path.abspath(__file__)))
ALL = ["C%02d" % i for i in range(1, 21)]

CHECKS = {
 "C15": dict(engine="I+H", technique="exhaustive datagram sweeps (every truncation, count value, pointer redirection, byte substitution, short tail) through the real reply parser in forked workers on a small stack with ASan/UBSan + two-paint stack differential (+valgrind in thorough) against independent decoders; explicit-state BFS to a fixpoint over lookup/cancel/reply/tick histories under a virtual clock",
   text="Each datagram of the enumerated families is delivered to a real DnsRequest with an outstanding lookup, twice on equal object state after painting the dead stack with two patterns: it must terminate on a 256 KiB stack, be sanitizer-clean, give paint-independent results, and report only addresses/names an independent decoder finds in the datagram. All histories of request/cancel/replies of every kind from either server/duplicates/unknown ids/ticks are explored to a fixpoint: each lookup's callback exactly once, never after cancel.",
   note="Trusted: the strict and generous reference decoders (readings L1-L6 in the harness), stack painting as proof of uninitialised-memory independence, interposed sendto and clock.", ref="2/C15"),
 "C13": dict(engine="H+I", technique="explicit-state BFS over keystroke and command histories on the real Terminal through a fake connection against a reference line editor/history; exhaustive byte-string/segmentation sweeps through the real Telnetd and TcpRpc front ends in persistent forked workers under ASan/UBSan",
   text="Every keystroke sequence up to the depth over printable characters and editing/history keys is compared with a reference editor (line executed at Enter, one prompt per Enter); every command sequence over probe/history/!!/!n/!-n/exit with boundary and overflowing integers on histories of length 0/1/20/21 must re-run exactly the addressed entry or report an error; every byte string up to length 4/5 over a telnet/escape alphabet in every 2-way segmentation, all frame truncations and teardown sequences must leave the process alive, sanitizer-clean, exception-free, segmentation-independent and still answering a probe command.",
   note="Trusted: reference editor conventions (DESIGN 1.7), ASan/UBSan, interposed epoll_wait for idle steps; a crash is attributed to one job by a persistent forked worker.", ref="2/C13"),
 "C14": dict(engine="I+H", technique="exhaustive enumeration of JSON values x concatenations x segmentations and of hostile byte strings / length fields on the three real framings (forked batches, ASan/UBSan), plus explicit-state BFS to a fixpoint over request/response/duplicate/unknown-id/clock-advance histories on two real Rpc peers under a virtual clock",
   text="Every generated JSON value round-trips through each framing's own encoder; every concatenation of up to 3 messages under every split into up to 3 segments (2-segment and fixed-chunk splits under ASan) decodes to the same sequence with unconsumed bytes re-presented; extreme length fields, wrong magic, every truncation and every short byte string over a JSON-punctuation alphabet must be answered by return value only. The completion half explores all histories for <=3 requests to a fixpoint: each callback exactly once, response before the deadline else timeout, duplicates/late/unknown ids ignored.",
   note="Trusted: the protos keep no state between onRecvData calls (so 2-segment + chunked ASan splits present every buffer window); stack limit 8 MiB for the deep-nesting family; virtual clock at clock_gettime.", ref="2/C14"),
 "C16": dict(engine="H", technique="canonical enumeration of machine definitions by weight x BFS over call histories (incl. re-entrant calls from every action) with state dedup; step-by-step comparison with a reference interpreter + enter/exit ledger",
   text="All machine definitions up to a weight cap (states, routes with wildcard/guards incl. flip-flop, per-state handlers, initial/terminal states, sub-machines to depth 2/3) are driven through every call sequence of start/run(e)/stop/restart up to depth 5/7, plain and re-entrant; the full trace of guards, exit/route/enter actions, notifications, return values and observers of every machine in the hierarchy must equal the reference semantics, enter/exit must balance whenever the outermost machine is stopped, re-entrant calls must be rejected without change.",
   note="Trusted: the reference interpreter (calibrated: 0 mismatches on 100000 flat machines; readings R1-R6 listed in the harness); machine-count cap reported as @CAP.", ref="2/C16"),
 "C19": dict(engine="I", technique="exhaustive enumeration of finite input domains on the real codecs under ASan/UBSan with exact-size heap outputs, compared against independent bitwise / python (hashlib, zlib, binascii, pure-python AES) references",
   text="Every byte string up to length 2-3 over the full byte range (and longer over boundary alphabets and patterns) as encoder and as decoder input, every output capacity (exact, one short, zero), every scalable-integer value around each length boundary and every short encoded string, every short typed-field sequence for the serializer in both endians, CRC/checksum/MD5 (all 2-way and a grid of 3-way update splits) and AES-128 (KAT vectors, all single-bit key x block pairs) are enumerated and compared with independent references; any sanitizer report is attributed to its input.",
   note="Trusted: the references (bitwise CRC from the polynomial, RFC 1071 sum, hashlib/zlib/binascii, a pure-python AES written from FIPS-197), ASan/UBSan with recover mode; MD5/AES equality is decided on the enumerated set only.", ref="2/C19"),
 "C09": dict(engine="S+I", technique="stateless model checking of the real log path (LogPrintfFunc -> Sink/AsyncSink -> AsyncPipe) under the cooperative scheduler with preemption/timed-flush bounds, TSan on every schedule; exhaustive input/configuration sweeps for lengths, filters and file roll-over",
   text="All interleavings up to the bound of 1-2 logging threads, the pipe's background thread (timed flush as deviation) and disable() are executed with pipe buffers smaller than one record; each sink must hold exactly the expected records, byte for byte, each once, per-thread order kept, complete when disable() returns. Text lengths around 0, the 2 KiB stack buffer and the configured maximum, every level x default/per-module threshold combination on both sink kinds, and file-sink size limits from 1 byte to several records with same-second roll-over are enumerated exhaustively.",
   note="Trusted: scheduler model incl. virtual clock for timed waits, TSan/ASan; module/function/file strings static as in real use; max length 0 excluded.", ref="2/C09"),
 "C06": dict(engine="H", technique="explicit-state BFS over send/enable/peer/loop histories with bounded injected I/O deviations (short write, EAGAIN, short readv via interposed write/readv) on the real BufferedFd and TcpConnection over a socketpair, byte-exact reference streams; plus exhaustive bulk lane with real kernel back-pressure",
   text="Every history up to the depth of sends, enable/disable, peer reads/writes/close and loop passes, with up to 1 (quick) / 2 (thorough) deviating kernel answers, is executed on both back-ends for several receive thresholds and consumption policies; the peer's bytes must always be a prefix of the sent stream and complete at quiescence, the receive callback must see exactly the unconsumed bytes in order, send-complete only with an empty buffer and everything written, peer close once after all data.",
   note="Trusted: interposed write/readv (legal kernel behaviours only), the std::string reference, ASan; bounds: <=14 sent / <=9 received bytes per history, depth 6/7; bulk lane 64 KiB-2 MiB.", ref="2/C06"),
 "C08": dict(engine="H", technique="explicit-state BFS over operation histories on the real Cabinet / ObjectPool / util::Fd with complete internal state as canonical key (Fd space closed at a fixpoint), reference status tables, ASan/UBSan",
   text="Every history up to the depth of alloc/update/free/clear/foreach-with-removal over every token ever issued (stale ones included), of pool alloc/free for keep numbers 0/1/2/max with a ctor/dtor-counting probe, and of copy/move/assign/swap/reset/close/destroy on shared fd handles with an injected or interposed close is executed and compared with a boring reference after each step.",
   note="Trusted: reference tables, interposed ::close for fake fds >= 1000, ASan/UBSan; cabinet id wrap after 2^64 allocations out of reach.", ref="2/C08"),
 "C04": dict(engine="H", technique="explicit-state BFS to a fixpoint over signal-subscription histories on two real loops (two threads, lock-step), real raise() deliveries, fork per evaluation; invariant oracle on callbacks, old handler and sigaction() disposition",
   text="All reachable subscription states of 4 signal events (single signal, signal set, one-shot) on two loops are explored to a fixpoint; in every state each signal is raised for real and every loop runs one pass: each enabled subscriber gets exactly one callback on its own thread, the previously installed handler (plain / SA_SIGINFO / SIG_IGN) is called once, and whenever a signal has no subscriber the kernel disposition equals the pre-subscription one field by field.",
   note="Trusted: lock-step controller (deliveries never overlap subscription changes, as the property assumes); SA_RESTORER ignored in the comparison; bounds: 2 signals, 4 events, 2 loops.", ref="2/C04"),
 "C03": dict(engine="H", technique="explicit-state BFS over fd-event operation histories x callback scripts on real pipes/socketpairs, each history executed on both back-ends in a forked child under ASan with de-pooled per-fd records; differential epoll-vs-select oracle",
   text="Every history up to the depth of enable/disable/feed/drain/loop-pass over 3 event configurations (shared descriptors, R/W/R|W masks, one-shot) and 34 in-callback mutation scripts (disable/enable/destroy siblings and events on other ready descriptors, create a new event, close) is run on epoll and select; callbacks are judged against the harness' own enabled/alive model and a poll() readiness snapshot; crashes, sanitizer reports and exceptions are violations.",
   note="Trusted: poll(fd,0) snapshot as readiness ground truth, ASan; bounds: 3 descriptors, 3+1 events, one script per run, depth 4 (quick) / 6 (thorough); fd-number reuse within a pass not modelled.", ref="2/C03"),
 "C11": dict(engine="H", technique="exhaustive enumeration of module-tree programs x per-program BFS over root call sequences with canonical-state dedup (fixpoint reached), hook-log oracle; dedup cross-checked by plain enumeration",
   text="Every module tree up to 4/5 nodes with every required/optional, named/unnamed and ok/init-fails/start-fails assignment is driven through every sequence of initialize/start/stop/cleanup (BFS to a fixpoint of canonical states) and finished by cleanup+destroy; nesting order, start/stop preconditions, balance and optional-failure isolation are judged from the probe hook log alone.",
   note="Trusted: the hook-log automaton oracle; Context is a null fake (Module never dereferences it); hook result fixed per program.", ref="2/C11"),
 "C02": dict(engine="H", technique="explicit-state BFS over timer operation histories on the real loop under a virtual monotonic clock (interposed clock_gettime), canonical-state dedup, per-timer deadline reference model, ASan with de-pooled timer records",
   text="Every history up to the depth of enable/disable/destroy/reinit and clock advances (including waking several periods late and equal deadlines) on 3-4 real TimerEvents whose callbacks disable/destroy/enable/restart themselves or others, and of doEvery/doAfter/cancel/cleanup on the real TimerPool, is executed on both back-ends; the oracle runs inside every callback (never early, deadline order, never on a disabled/destroyed timer) and after every pass (no due period left unfired, isEnabled agrees).",
   note="Trusted: the 20-line deadline model, interposed clock (libstdc++ steady_clock -> clock_gettime), ASan; bounds: <=4 timers, depth 5 (quick) / 7 (thorough), advances in {0,1,2,3,7} ms.", ref="2/C02"),
 "C01": dict(engine="S+H", technique="stateless model checking under a cooperative scheduler (preemption-bounded DFS of all interleavings of submitting threads with the real loop on both back-ends, TSan on every schedule) + explicit-state BFS over single-thread submit/cancel/loop/destroy histories",
   text="All interleavings up to the completed preemption bound of cross-thread runInLoop submissions with loop start, iterations, exit, re-run and destruction are executed on the real epoll and select loops (eventfd, recursive mutex and epoll_wait/select are scheduling points); a closing protocol makes every deadlock a lost wake-up. All single-thread histories up to the depth of runNext/runInLoop/run with callables that spawn, cancel in-batch or exit, cancel(id) and loop passes are compared against exactly-once/never-after-cancel/order/not-dropped oracles.",
   note="Trusted: scheduler model of recursive mutex/eventfd/epoll readiness (probed on the real kernel objects), TSan/ASan; bounds: <=3 threads, <=8 submissions, preemption bound 2/3, history depth 4/6.", ref="2/C01"),
 "C05": dict(engine="S", technique="stateless model checking of the real code: cooperative scheduler over interposed pthread ops, iterative preemption-bounded DFS of all interleavings, fork per execution; ThreadSanitizer on every explored schedule",
   text="All interleavings (up to the completed preemption/deviation bound) of submit/status/cancel/cleanup scripts with worker progress are executed on the real ThreadPool/WorkThread; every schedule is judged by exactly-once/answer-consistency/pick-order/thread-limit oracles, deadlock = cleanup never returns, and each schedule is also race-checked by TSan. Finds lost wake-ups and check-then-act windows that need one specific preemption.",
   note="Trusted: the scheduler model of mutex/condvar semantics (cond wait = 2 steps, signal chooses a waiter), TSan/ASan, FakeLoop; bounds: <=4 threads, <=3 tasks, preemption bound 2 (quick) / 3 (thorough).", ref="2/C05"),
 "C10": dict(engine="S", technique="stateless model checking of the real AsyncPipe under the cooperative scheduler: preemption-bounded DFS of all interleavings of producers, background thread, timed flush (deviation) and cleanup; TSan on every schedule",
   text="Every interleaving up to the bound of 1-3 producers, the background thread's timed wait expiring or not, and cleanup is executed on the real class for buffer sizes 1/2/4 and min/max buffer counts; the concatenated sink output must be an interleaving of contiguous appends in producer order, complete at cleanup return; deadlock/livelock detection covers 'cleanup always terminates'.",
   note="Trusted: scheduler model (timed wait may expire at any point: deviation), TSan/ASan; appends concurrent with cleanup are outside the property.", ref="2/C10"),
 "C07": dict(engine="H", technique="explicit-state BFS over operation histories on the real util::Buffer, canonical-state dedup, std::deque reference model + ASan/UBSan oracle",
   text="Every history of buffer operations up to the stated depth from every initial capacity is executed on the real class and compared with a deque after each step; exhaustive within depth/size bounds, so position/compaction/growth errors that need a particular prefix cannot hide.",
   note="Trusted: g++ ASan/UBSan, the 40-line reference model; bounded depth (capacity doubling means no fixpoint).", ref="2/C07"),
}
PENDING_REASON = "check not built yet in this round (planned, see DESIGN.md section 2); not claimed"

def main():
    checks = []
    for pid in ALL:
        if pid not in CHECKS: continue
        c = CHECKS[pid]
        checks.append({
            "property_id": pid,
            "quick_cmd": "./check %s --tier quick" % pid,
            "thorough_cmd": "./check %s --tier thorough" % pid,
            "evidence_file": "/verif/evidence/%s.json" % pid,
            "replay_cmd_template": "./check %s --replay {path}" % pid,
            "engine": c["engine"],
            "level_claimed": {"category": "model_checking", "text": c["text"], "design_ref": c["ref"]},
            "level_note": c["note"],
            "technique": c["technique"],
        })
    na = [{"property_id": p, "reason": PENDING_REASON} for p in ALL if p not in CHECKS]
    m = {
        "version": 1,
        "setup_cmd": "python3 engine/setup.py",
        "hooks": {"guard": "CPP_TBOX_VERIF", "enable": "checks compile /repo sources directly with -DCPP_TBOX_VERIF=1 (no guarded code exists in /repo: all seams are link-time interposition)",
                  "baseline_off_cmd": "cmake --build /repo/_build -j16 -- -k0 ; ctest --test-dir /repo/_build -j8 --timeout 900",
                  "source_commits": [], "add_only": True},
        "engines": [
            {"name": "S", "path": "engine/sched", "serves_properties": ["C01", "C05", "C09", "C10"], "kind_free_text": "cooperative scheduler by link-time interposition of pthread/epoll/select/eventfd; CHESS-style preemption-bounded stateless DFS, fork per execution"},
            {"name": "H", "path": "engine/hist", "serves_properties": ["C01","C02","C03","C04","C06","C07","C08","C11","C12","C13","C14","C15","C16","C17","C18","C20"], "kind_free_text": "explicit-state BFS over op histories replayed on fresh real objects, canonical-state dedup, optional fork per evaluation"},
            {"name": "I", "path": "engine/hist", "serves_properties": ["C09","C12","C13","C14","C15","C19","C20"], "kind_free_text": "exhaustive enumeration of finite input domains (depth-1 histories)"},
        ],
        "checks": checks,
        "not_applicable": na,
        "notes": "All checks explore the real cpp-tbox code compiled from /repo's working tree; see DESIGN.md.",
    }
    json.dump(m, open(os.path.join(VERIF, "MANIFEST.json"), "w"), indent=1)
if __name__ == "__main__":
    main()
