#!/usr/bin/env python3
"""Regenerates /verif/MANIFEST.json from the table below (single source of truth)."""
import json, os
VERIF = os.path.dirname(os.path.dirname(os.path.abspath(__file__)))
ALL = ["C%02d" % i for i in range(1, 21)]

CHECKS = {
 "C07": dict(engine="H", technique="explicit-state BFS over operation histories on the real util::Buffer, canonical-state dedup, std::deque reference model + ASan/UBSan oracle",
   text="Every history of buffer operations up to the stated depth from every initial capacity is executed on the real class and compared with a deque after each step; exhaustive within depth/size bounds, so position/compaction/growth errors that need a particular prefix cannot hide.",
   note="Trusted: g++ ASan/UBSan, the 40-line reference model; bounded depth (capacity doubling means no fixpoint).", ref="2/C07"),
}
PENDING_REASON = "check not built yet in this round (planned, see DESIGN.md section 2); not claimed"

def main():
    checks = []
    for pid in ALL:
        if pid not in CHECKS: continue
        c = CHECKS[pid]
        checks.append({
            "property_id": pid,
            "quick_cmd": "./check %s --tier quick" % pid,
            "thorough_cmd": "./check %s --tier thorough" % pid,
            "evidence_file": "/verif/evidence/%s.json" % pid,
            "replay_cmd_template": "./check %s --replay {path}" % pid,
            "engine": c["engine"],
            "level_claimed": {"category": "model_checking", "text": c["text"], "design_ref": c["ref"]},
            "level_note": c["note"],
            "technique": c["technique"],
        })
    na = [{"property_id": p, "reason": PENDING_REASON} for p in ALL if p not in CHECKS]
    m = {
        "version": 1,
        "setup_cmd": "python3 engine/setup.py",
        "hooks": {"guard": "CPP_TBOX_VERIF", "enable": "checks compile /repo sources directly with -DCPP_TBOX_VERIF=1 (no guarded code exists in /repo: all seams are link-time interposition)",
                  "baseline_off_cmd": "cmake --build /repo/_build -j16 -- -k0 ; ctest --test-dir /repo/_build -j8 --timeout 900",
                  "source_commits": [], "add_only": True},
        "engines": [
            {"name": "S", "path": "engine/sched", "serves_properties": ["C01", "C05", "C09", "C10"], "kind_free_text": "cooperative scheduler by link-time interposition of pthread/epoll/select/eventfd; CHESS-style preemption-bounded stateless DFS, fork per execution"},
            {"name": "H", "path": "engine/hist", "serves_properties": ["C01","C02","C03","C04","C06","C07","C08","C11","C12","C13","C14","C15","C16","C17","C18","C20"], "kind_free_text": "explicit-state BFS over op histories replayed on fresh real objects, canonical-state dedup, optional fork per evaluation"},
            {"name": "I", "path": "engine/hist", "serves_properties": ["C09","C12","C13","C14","C15","C19","C20"], "kind_free_text": "exhaustive enumeration of finite input domains (depth-1 histories)"},
        ],
        "checks": checks,
        "not_applicable": na,
        "notes": "All checks explore the real cpp-tbox code compiled from /repo's working tree; see DESIGN.md.",
    }
    json.dump(m, open(os.path.join(VERIF, "MANIFEST.json"), "w"), indent=1)
if __name__ == "__main__":
    main()
