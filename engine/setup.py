#!/usr/bin/env python3
"""setup_cmd: nothing is pre-built (every check compiles what it needs from /repo's working tree);
this only verifies the toolchain is present and creates the build directories."""
import os, shutil, subprocess, sys
VERIF = os.path.dirname(os.path.dirname(os.path.abspath(__file__)))
for d in ("build/cache", "evidence", "replays"):
    os.makedirs(os.path.join(VERIF, d), exist_ok=True)
for tool in ("g++", "clang++", "python3"):
    if not shutil.which(tool):
        print("missing tool", tool); sys.exit(1)
print("setup ok")
